"""numpy array algebra (DESIGN 2.6): 1-D arrays as closures (length, element function, dtype tag).
Every operation here is an ASSUMED contract of numpy, validated against real numpy by
native/validate_numpy.py on every run; floats are reals, casts keep the value."""
from __future__ import annotations

import ast

import z3

from . import smt
from . import builtins_ as B
from .values import (Builtin, ClassVal, ExcVal, ListVal, NOT_IMPLEMENTED, Obj, Opaque, SeqVal, Sym, SymList,
                     TupleVal, Unsupported)


class NArr:
    """1-D numpy array: n (int or z3 Int), elem(i) -> value (python number / Sym / Opaque), dtype tag."""

    def __init__(self, n, elem, dtype="float", tag=""):
        if isinstance(n, Sym):
            n = n.e
        if isinstance(n, z3.ExprRef):
            sn = smt.simp(n)
            n = sn.as_long() if z3.is_int_value(sn) else sn
        self.n = n
        self.elem = elem
        self.dtype = dtype
        self.tag = tag
        self.ident = None     # optional z3 constant naming the array object (for `is` / frames)
        self.cls_override = None   # ndarray subclass this array is an instance of (e.g. EnumArray)
        self.attrs = {}            # extra instance attributes of such subclasses

    def __repr__(self):
        return f"NArr<{self.dtype}>(n={self.n},{self.tag})"


def zn(a):
    return B._z(a.n)


def is_arr(v):
    return isinstance(v, NArr)


def scalar_like(v):
    return isinstance(v, (int, float, bool, Sym)) or (isinstance(v, Opaque) and v.attrs.get("scalar"))


def as_narr(I, ctx, v, n_hint=None):
    if isinstance(v, NArr):
        return v
    if isinstance(v, (ListVal, TupleVal)):
        items = list(v.items)
        dt = "bool" if items and all(isinstance(x, bool) for x in items) else \
            "int" if items and all(isinstance(x, int) or (isinstance(x, Sym) and x.kind == "int") for x in items) else "float"
        if items and all(isinstance(x, str) for x in items):
            dt = "str"
        return NArr(len(items), lambda i, items=items: I._concrete_index(items, i), dt, "from-list")
    if isinstance(v, (SymList, SeqVal)):
        seq = I.as_seq(ctx, v)
        return NArr(seq.length, seq.elem, "object", "from-seq")
    if isinstance(v, ClassVal) and getattr(v, "enum_members", None) is not None:
        # numpy.array(EnumClass): iterating an enumeration yields its (canonical) members in declaration order
        items = list(v.enum_members.values())
        return NArr(len(items), lambda i, items=items: I._concrete_index(items, i), "object", "from-enum-class")
    if scalar_like(v):
        # 0-d: treated as broadcastable scalar
        return None
    raise Unsupported(f"cannot view {v!r} as numpy array")


def lift(I, ctx, op, a, b):
    """elementwise binary operation with scalar broadcasting"""
    A = a if isinstance(a, NArr) else None
    Bv = b if isinstance(b, NArr) else None
    if A is not None and Bv is not None:
        same = B._z(A.n) == B._z(Bv.n)
        s = smt.simp(same)
        if z3.is_false(s):
            raise I.raise_exc("ValueError")
        if not z3.is_true(s):
            one = z3.Or(B._z(A.n) == 1, B._z(Bv.n) == 1)
            if not ctx.branch(same):
                raise Unsupported("numpy broadcasting of arrays of different symbolic length")
    n = A.n if A is not None else Bv.n

    def elem(i):
        x = A.elem(i) if A is not None else a
        y = Bv.elem(i) if Bv is not None else b
        return op(x, y)
    return n, elem


_BIN = {ast.Add: "+", ast.Sub: "-", ast.Mult: "*", ast.Div: "/", ast.FloorDiv: "//", ast.Mod: "%", ast.BitAnd: "&",
        ast.BitOr: "|", ast.BitXor: "^", ast.Pow: "**"}


def arr_binop(I, ctx, op, a, b):
    if isinstance(op, ast.Div):
        dt = "float"
    elif isinstance(op, (ast.BitAnd, ast.BitOr, ast.BitXor)):
        dt = "bool" if all((not isinstance(x, NArr)) or x.dtype == "bool" for x in (a, b)) else "int"
    else:
        dts = [x.dtype for x in (a, b) if isinstance(x, NArr)]
        dt = "float" if "float" in dts or any(isinstance(x, float) or B.is_real_like(x) for x in (a, b) if not isinstance(x, NArr)) else \
            ("int" if dts and all(d in ("int", "bool") for d in dts) else (dts[0] if dts else "float"))

    def f(x, y):
        if isinstance(op, ast.Div):
            # numpy: division by zero gives inf/nan with a warning, no exception (floats are reals: unspecified value)
            yr = B.zreal(y)
            xr = B.zreal(x)
            return B.wrap(xr / yr)
        return I.binop(ctx, op, x, y)
    n, elem = lift(I, ctx, f, a, b)
    r = NArr(n, elem, dt, _BIN.get(type(op), "?"))
    r.origin = (op, a, b)
    # element-wise operations commute with a boolean-mask selection
    ms = [getattr(x, "masked_from", None) for x in (a, b) if isinstance(x, NArr)]
    if ms and all(m is not None for m in ms) and all(m[1] is ms[0][1] for m in ms):
        ba = a.masked_from[0] if isinstance(a, NArr) else a
        bb = b.masked_from[0] if isinstance(b, NArr) else b
        bn, belem = lift(I, ctx, f, ba, bb)
        r.masked_from = (NArr(bn, belem, dt, "base-op"), ms[0][1])
    return r


def arr_compare(I, ctx, op, a, b):
    def f(x, y):
        return B.builtin_compare(I, ctx, op, x, y)
    n, elem = lift(I, ctx, f, a, b)
    return NArr(n, elem, "bool", "cmp")


def forall(a, pred):
    """z3: pred holds for every element"""
    if isinstance(a.n, int):
        return smt.And(*[B._zb(pred(a.elem(i))) for i in range(a.n)])
    j = z3.Int("e_all")
    return z3.ForAll([j], z3.Implies(z3.And(j >= 0, j < a.n), B._zb(pred(a.elem(j)))))


def exists(a, pred):
    if isinstance(a.n, int):
        return smt.Or(*[B._zb(pred(a.elem(i))) for i in range(a.n)])
    j = z3.Int("e_any")
    return z3.Exists([j], z3.And(j >= 0, j < a.n, B._zb(pred(a.elem(j)))))


def arr_eq(I, ctx, a, b):
    """z3: same length and same elements"""
    if isinstance(a.n, int) and isinstance(b.n, int):
        if a.n != b.n:
            return z3.BoolVal(False)
        return smt.And(*[B._zb(B.eq_formula(I, ctx, a.elem(i), b.elem(i))) for i in range(a.n)])
    j = z3.Int(ctx.fresh_name("e_eq"))
    return z3.And(B._z(a.n) == B._z(b.n),
                  z3.ForAll([j], z3.Implies(z3.And(j >= 0, j < B._z(a.n)), B._zb(B.eq_formula(I, ctx, a.elem(j), b.elem(j))))))


NP_TYPE_OF_TAG = {"wideint": "int64", "int": "int64", "uint8": "uint8", "str": "str_", "object": "object_", "float": "float64", "bool": "bool_",
                  "date": "datetime64"}


def arr_getattr(I, ctx, a, name):
    def B_(fn):
        return Builtin("ndarray." + name, fn)
    if name in a.attrs:
        return a.attrs[name]
    if a.cls_override is not None:
        if name == "__class__":
            return a.cls_override
        attr, owner = a.cls_override.lookup(name)
        if owner is not None and not owner.external:
            return B.bind_descriptor(I, ctx, attr, a, a.cls_override)
    if name == "copy":
        return B_(lambda ctx, *x, **k: NArr(a.n, a.elem, a.dtype, "copy"))
    if name == "all":
        return B_(lambda ctx, *x, **k: B.wrap(forall(a, lambda v: B.zbool(v))))
    if name == "any":
        return B_(lambda ctx, *x, **k: B.wrap(exists(a, lambda v: B.zbool(v))))
    if name == "astype":
        return B_(lambda ctx, dt, *x, **k: arr_astype(I, ctx, a, dt))
    if name in ("size",):
        return B.wrap(zn(a))
    if name == "max":
        return B_(lambda ctx: I.ext["numpy"]["max"].fn(ctx, a))
    if name == "shape":
        return TupleVal([B.wrap(zn(a))])
    if name == "ndim":
        return 1
    if name == "dtype":
        return DType(a.dtype)
    if name == "reshape":
        return B_(lambda ctx, *shape: a)
    if name == "flat":
        return a            # 1-D: the flat view indexes the same elements
    if name == "tolist":
        return B_(lambda ctx: SymList(SeqVal(a.n, a.elem, "tolist")) if not isinstance(a.n, int) else ListVal([a.elem(i) for i in range(a.n)]))
    if name == "fill":
        def fill(ctx, v):
            a.elem = (lambda i, v=v: v)
        return B_(fill)
    if name == "view":
        def view(ctx, *x):
            r = NArr(a.n, a.elem, a.dtype, "view")
            if x and isinstance(x[0], ClassVal) and x[0] is not I.ndarray_class:
                r.cls_override = x[0]
            return r
        return B_(view)
    if name == "sum":
        return B_(lambda ctx, *x, **k: arr_sum(I, ctx, a))
    if name == "T":
        return a
    if name == "nbytes":
        return B.wrap(zn(a) * 4)
    if name == "itemsize":
        return 4
    return None


class DType:
    """dtype tag; equality by tag"""

    def __init__(self, tag):
        self.tag = tag

    def __repr__(self):
        return f"dtype({self.tag})"


DTYPE_NAMES = {"float32": "float", "float64": "float", "float": "float", "int32": "int", "int64": "int", "int": "int",
               "int16": "int", "bool_": "bool", "bool": "bool", "uint8": "uint8", "object_": "object", "object": "object",
               "str_": "str", "str": "str", "datetime64": "date", "datetime64[D]": "date", "bytes_": "bytes", "generic": "generic",
               "intp": "int", "int8": "int", "float16": "float"}


def dtype_tag(I, v):
    if isinstance(v, DType):
        return v.tag
    if isinstance(v, ClassVal) and v.name in ("int", "float", "bool", "str", "object"):
        return v.name
    if isinstance(v, str):
        return DTYPE_NAMES.get(v, v)
    if isinstance(v, ClassVal):
        return DTYPE_NAMES.get(v.name, v.name)
    if isinstance(v, Opaque) and v.attrs.get("dtype_tag"):
        return v.attrs["dtype_tag"]
    if v is None:
        return None
    raise Unsupported(f"dtype {v!r}")


def arr_astype(I, ctx, a, dt):
    tag = dtype_tag(I, dt)
    ctx.assumed_ext.add("ndarray.astype keeps element values (floats are reals; integer truncation / wrap-around modelled only for uint8)")
    if tag == "uint8":
        return NArr(a.n, lambda i: B.wrap(B.zint(a.elem(i)) % 256), "uint8", "astype")
    if tag == "bool":
        return NArr(a.n, lambda i: B.wrap(B.zbool(a.elem(i))), "bool", "astype")
    if tag == "int" and a.dtype == "wideint":
        # 64-bit integers narrowed to the 32-bit dtype of integer variables: values inside the 32-bit range are kept, the others wrap
        # (uninterpreted)
        ctx.assumed_ext.add("astype from a 64-bit to a 32-bit integer dtype keeps values in [-2^31, 2^31) and wraps the others (uninterpreted WRAP32)")
        def narrow(i):
            x = B.zint(a.elem(i))
            return B.wrap(z3.If(z3.And(x >= -2**31, x < 2**31), x, WRAP32(x)))
        return NArr(a.n, narrow, "int", "astype")
    if tag == "str" and a.dtype not in ("str", "object"):
        # numbers become their text: no longer equal to the numbers they were
        def text(i):
            v = a.elem(i)
            return I.to_str(ctx, v) if isinstance(v, (Sym, int, float)) else v
        return NArr(a.n, text, "str", "astype-str")
    return NArr(a.n, a.elem, tag or a.dtype, "astype")


class SigmaArr:
    """symbolic sum of the elements of an array (reduction node; compared structurally)"""

    def __init__(self, arr):
        self.arr = arr


def arr_sum(I, ctx, a):
    if isinstance(a.n, int):
        acc = 0
        for i in range(a.n):
            acc = I.binop(ctx, ast.Add(), acc, a.elem(i))
        return acc
    hook = I.ext.get("__arr_sum_hook__")
    if hook:
        return hook(I, ctx, a)
    raise Unsupported("sum of a symbolic-length array needs a reduction contract")


# ----------------------------------------------------------------------
# hooks into the core operations
# ----------------------------------------------------------------------
def install(I):
    from . import builtins_ as BB
    nd = ClassVal("ndarray", None, [I.builtins["object"]], {}, external="numpy.ndarray")
    I.ndarray_class = nd

    def ext(name):
        def deco(fn):
            np_tab[name] = Builtin("numpy." + name, lambda ctx, *a, **k: fn(ctx, *a, **k))
            return fn
        return deco
    rec_cls = ClassVal("recarray", None, [nd], {}, external="numpy.recarray")
    rec_cls.ns["__instancecheck_model__"] = lambda ctx, v: isinstance(v, RecArr)
    I.recarray_class = rec_cls
    np_tab = {"ndarray": nd, "recarray": rec_cls, "nan": Opaque(None, "nan", {"scalar": True})}
    for nm in DTYPE_NAMES:
        np_tab.setdefault(nm, ClassVal(nm, None, [I.builtins["object"]], {}, external="numpy." + nm))
    np_tab["generic"] = ClassVal("generic", None, [I.builtins["object"]], {}, external="numpy.generic")

    @ext("array")
    def _array(ctx, v, dtype=None, **k):
        if isinstance(dtype, ListVal) and dtype.items and all(isinstance(d, TupleVal) and len(d.items) == 2 and isinstance(d.items[0], str) for d in dtype.items):
            # numpy.array([row], dtype=[(name, type), ...]): a structured array of one record
            ctx.assumed_ext.add("numpy.array([row], dtype=[(name, type), ...]): one record whose field `name` is the element of the row at that position; "
                                ".view(numpy.recarray) gives attribute access to the fields")
            rows = I.iterate(ctx, v)
            if len(rows) != 1:
                raise Unsupported("structured array with other than one record")
            row = I.iterate(ctx, rows[0])
            names = [d.items[0] for d in dtype.items]
            if len(row) != len(names):
                raise I.raise_exc("ValueError")
            return RecArr(names, dict(zip(names, row)))
        ctx.assumed_ext.add("numpy.array / asarray: 1-D array of the elements of a sequence (same values)")
        a = as_narr(I, ctx, v)
        if a is None:
            return NArr(1, lambda i: v, "float", "0d") if False else Opaque(None, "0d-array", {"scalar": True, "value": v})
        if a.dtype == "object" and not isinstance(v, NArr):
            try:
                probe = a.elem(z3.Int(ctx.fresh_name("row_probe"))) if not isinstance(a.n, int) else (a.elem(0) if a.n > 0 else None)
            except Unsupported:
                probe = None
            if isinstance(probe, NArr):
                # a sequence of 1-D arrays: a 2-D array whose row k is the k-th of them (rows of one length: the length of a
                # row may not depend on the row)
                ctx.assumed_ext.add("numpy.array / asarray of a sequence of equally long 1-D arrays: the 2-D array whose row k is the k-th of them")
                cols = probe.n
                if not isinstance(cols, int) and "row_probe" in str(cols):
                    raise Unsupported("rows of differing lengths")
                return NArr2(a.n, cols, lambda i, j, a=a: a.elem(i).elem(j), probe.dtype, "rows")
        r = NArr(a.n, a.elem, a.dtype, "array")
        return arr_astype(I, ctx, r, dtype) if dtype is not None else r

    @ext("asarray")
    def _asarray(ctx, v, dtype=None, **k):
        if isinstance(v, NArr) and dtype is None:
            return v
        return _array(ctx, v, dtype)

    @ext("zeros")
    def _zeros(ctx, n, dtype=None):
        if isinstance(n, TupleVal) and len(n.items) == 1:
            n = n.items[0]
        tag = dtype_tag(I, dtype) or "float"
        return NArr(B.wrap(B.zint(n)) if not isinstance(n, int) else n, (lambda i: False) if tag == "bool" else (lambda i: 0), tag, "zeros")

    @ext("ones")
    def _ones(ctx, n, dtype=None):
        return NArr(n if isinstance(n, int) else B.zint(n), lambda i: 1, dtype_tag(I, dtype) or "float", "ones")

    @ext("full")
    def _full(ctx, n, v, dtype=None):
        return NArr(n if isinstance(n, int) else B.zint(n), lambda i: v, dtype_tag(I, dtype) or "float", "full")

    @ext("empty")
    def _empty(ctx, n, dtype=None):
        junk = z3.Function(ctx.fresh_name("uninit"), z3.IntSort(), z3.RealSort())
        return NArr(n if isinstance(n, int) else B.zint(n), lambda i: Sym(junk(B._z(i))), dtype_tag(I, dtype) or "float", "empty")
    @ext("bincount")
    def _bincount(ctx, x, weights=None, minlength=0):
        return bincount(I, ctx, x, weights, minlength)

    @ext("where")
    def _where(ctx, c, a, b):
        ctx.assumed_ext.add("numpy.where(c, a, b): element-wise choice with scalar broadcasting")
        arrs = [v for v in (c, a, b) if isinstance(v, NArr)]
        if not arrs:
            raise Unsupported("numpy.where on scalars")
        n = arrs[0].n
        g = lambda v, i: v.elem(i) if isinstance(v, NArr) else v
        dt = next((v.dtype for v in (a, b) if isinstance(v, NArr)), "float")
        return NArr(n, lambda i: B.ite_val(B.zbool(g(c, i)) if not isinstance(g(c, i), bool) else g(c, i), (lambda: g(a, i)), (lambda: g(b, i))), dt, "where")

    @ext("select")
    def _select(ctx, condlist, choicelist, default=0):
        ctx.assumed_ext.add("numpy.select(condlist, choicelist, default): element-wise first choice whose condition holds, else the default")
        conds = [as_narr(I, ctx, c) for c in I.iterate(ctx, condlist)]
        choices = I.iterate(ctx, choicelist)
        if len(conds) != len(choices):
            raise I.raise_exc("ValueError")
        if not conds:
            raise I.raise_exc("ValueError")
        n = conds[0].n
        g = lambda v, i: v.elem(i) if isinstance(v, NArr) else v
        return NArr(n, lambda i: B.Choice([(B.zbool(c.elem(i)), g(v, i)) for c, v in zip(conds, choices)], default), "object", "select")

    @ext("int16")
    def _int16(ctx, v=0):
        return v

    @ext("max")
    def _max(ctx, a, initial=None):
        ctx.assumed_ext.add("numpy.max(a): an element of a that is >= every element (a non-empty); with initial=v: v or such an element, "
                            "whichever is larger (v for an empty a)")
        a = as_narr(I, ctx, a)
        m = ctx.fresh_int("npmax") if a.dtype in ("int", "uint8") else ctx.fresh_real("npmax")
        i = z3.Int("i_max")
        conv = B.zint if a.dtype in ("int", "uint8") else B.zreal
        if initial is None and ctx.branch(zn(a) <= 0):
            raise I.raise_exc("ValueError")
        ctx.assume(z3.ForAll([i], z3.Implies(z3.And(i >= 0, i < zn(a)), conv(a.elem(i)) <= m)))
        w = ctx.fresh_int("maxwit")
        if initial is None:
            ctx.assume(z3.And(w >= 0, w < zn(a), conv(a.elem(w)) == m))
        else:
            ctx.assume(z3.And(conv(initial) <= m, z3.Or(conv(initial) == m, z3.And(w >= 0, w < zn(a), conv(a.elem(w)) == m))))
        return Sym(m)

    def _truthy(v):
        if isinstance(v, bool):
            return z3.BoolVal(v)
        if isinstance(v, Sym) and v.kind == "bool":
            return B.zbool(v)
        if isinstance(v, (Inf, MaybeInf)):
            return z3.BoolVal(True) if isinstance(v, Inf) else z3.Or(v.isinf, v.isneg, B.zreal(v.val) != 0)
        return B.zreal(v) != 0

    @ext("array_equal")
    def _array_equal(ctx, a, b, **k):
        ctx.assumed_ext.add("numpy.array_equal(a, b): same length and equal elements")
        if a is b:
            return True
        a, b = as_narr(I, ctx, a), as_narr(I, ctx, b)
        if a is None or b is None:
            raise Unsupported("numpy.array_equal on scalars")
        return B.wrap(arr_eq(I, ctx, a, b))

    @ext("copyto")
    def _copyto(ctx, dst, src, **k):
        """numpy.copyto(dst, src): writes into the array object dst; every holder of that object sees it. Recorded so that contracts
        can state which arrays may be written in place."""
        ctx.assumed_ext.add("numpy.copyto(dst, src) overwrites the elements of dst in place")
        ctx.ghost.setdefault("written_in_place", []).append(dst)
        if isinstance(dst, NArr) and isinstance(src, NArr):
            dst.elem = src.elem
        return None

    @ext("any")
    def _any(ctx, a, **k):
        ctx.assumed_ext.add("numpy.any(a) / numpy.all(a): some / every element is non-zero (true)")
        a = as_narr(I, ctx, a)
        return B.wrap(exists(a, _truthy))

    @ext("all")
    def _all(ctx, a, **k):
        ctx.assumed_ext.add("numpy.any(a) / numpy.all(a): some / every element is non-zero (true)")
        a = as_narr(I, ctx, a)
        return B.wrap(forall(a, _truthy))

    @ext("shape")
    def _shape(ctx, a):
        if isinstance(a, NArr2):
            return TupleVal([B.wrap(B._z(a.rows)), B.wrap(B._z(a.cols))])
        a = as_narr(I, ctx, a)
        return TupleVal([B.wrap(zn(a))])

    @ext("can_cast")
    def _can_cast(ctx, frm, to, casting="safe"):
        ctx.assumed_ext.add("numpy.can_cast(from, to, 'safe'): same dtype, or bool / uint8 into any wider numeric or object dtype; never float into int or anything into bool")
        a, b = dtype_tag(I, frm), dtype_tag(I, to)
        if casting != "safe":
            raise Unsupported("numpy.can_cast casting=" + repr(casting))
        if a == b or b == "object":
            return True
        if a == "bool":
            return b in ("uint8", "int", "float")
        if a == "uint8":
            return b in ("int", "float")
        if b == "bool" or (a == "float" and b in ("int", "uint8")) or a in ("object", "str"):
            return False
        raise Unsupported(f"numpy.can_cast({a}, {b}) depends on the bit widths, which the dtype tags do not carry")

    for _nm in ("str_", "record", "void", "bool_", "object_"):
        np_tab.setdefault(_nm, Opaque(None, "numpy." + _nm, {"np_kind": _nm}))
    # abstract scalar kinds as classes: python numbers are not instances; modelled numpy scalars carry attrs["np_scalar"]
    _kinds = {"number": ("int", "float", "complex"), "integer": ("int",), "floating": ("float",), "complexfloating": ("complex",), "generic": ("int", "float", "complex", "str", "bool")}
    for _nm, _ok in _kinds.items():
        c = ClassVal(_nm, None, [I.builtins["object"]], {}, external="numpy." + _nm)
        c.ns["__instancecheck_model__"] = (lambda ctx, v, _ok=_ok: (isinstance(v, Opaque) and v.attrs.get("np_scalar") in _ok) or
                                           getattr(v, "np_scalar", None) in _ok)
        np_tab[_nm] = c

    @ext("issubdtype")
    def _issubdtype(ctx, dt, kind):
        k = kind.attrs.get("np_kind") if isinstance(kind, Opaque) else (kind.name if isinstance(kind, ClassVal) else None)
        tag = dt.tag if isinstance(dt, DType) else None
        is_record = isinstance(dt, Opaque) and dt.attrs.get("record")
        if k in ("record", "void"):
            return bool(is_record)
        if is_record:
            return False
        if k == "str_" and tag is not None:
            return tag == "str"
        if k == "integer" and tag is not None:
            return tag in ("int", "uint8", "wideint")
        if k == "floating" and tag is not None:
            return tag == "float"
        if k == "bool_" and tag is not None:
            return tag == "bool"
        raise Unsupported(f"numpy.issubdtype({dt!r}, {kind!r})")

    @ext("repeat")
    def _repeat(ctx, a, repeats, axis=None):
        ctx.assumed_ext.add("numpy.repeat(a, k): every element k times in a row, element i is a[i // k]")
        arr = as_narr(I, ctx, a)
        k = B.zint(repeats)
        return NArr(smt.simp(zn(arr) * k), lambda i: arr.elem(smt.simp(B._z(i) / k)), arr.dtype, "repeat")

    @ext("take")
    def _take(ctx, a, indices, **k):
        ctx.assumed_ext.add("numpy.take(a, indices)[i] = a[indices[i]]")
        idx = as_narr(I, ctx, indices)
        if isinstance(a, (ListVal, TupleVal)):
            items = list(a.items)
            return NArr(idx.n, lambda i: B.Choice([(B.zint(idx.elem(i)) == kk, it) for kk, it in enumerate(items)], items[0] if items else None), "object", "take")
        arr = as_narr(I, ctx, a)
        return NArr(idx.n, lambda i: arr.elem(smt.simp(B.zint(idx.elem(i)))), arr.dtype, "take")

    @ext("full_like")
    def _full_like(ctx, a, v, **k):
        if isinstance(a, NArr):
            return NArr(a.n, lambda i: v, a.dtype, "full_like")
        return v            # a 0-d / one-record operand: the fill value itself (it broadcasts)

    @ext("empty_like")
    def _empty_like(ctx, a):
        return np_tab["empty"].fn(ctx, B.wrap(zn(a)), DType(a.dtype))

    @ext("arange")
    def _arange(ctx, *a, dtype=None):
        if len(a) == 2:
            lo, hi = B.zint(a[0]), B.zint(a[1])
            n = smt.simp(z3.If(hi > lo, hi - lo, 0))
            return NArr(n, lambda i: B.wrap(smt.simp(lo + B._z(i))), dtype_tag(I, dtype) or "int", "arange")
        if len(a) != 1:
            raise Unsupported("numpy.arange with a step")
        n = a[0]
        return NArr(n if isinstance(n, int) else B.zint(n), lambda i: B.wrap(B._z(i)), dtype_tag(I, dtype) or "int", "arange")

    @ext("logical_and")
    def _land(ctx, a, b):
        n, elem = lift(I, ctx, lambda x, y: B.wrap(z3.And(B.zbool(x), B.zbool(y))), a, b)
        return NArr(n, elem, "bool", "and")

    @ext("logical_or")
    def _lor(ctx, a, b):
        n, elem = lift(I, ctx, lambda x, y: B.wrap(z3.Or(B.zbool(x), B.zbool(y))), a, b)
        return NArr(n, elem, "bool", "or")

    @ext("logical_not")
    def _lnot(ctx, a):
        return NArr(a.n, lambda i: B.wrap(z3.Not(B.zbool(a.elem(i)))), "bool", "not")
    I.ext["numpy"] = np_tab

    # core hooks: binop / compare / getattr / len / isinstance / getitem on NArr
    I.narr_hooks = True
    install2(I)
    install_sorting(I)


class BinSum(NArr):
    """numpy.bincount(ids, weights, minlength): element g = sum of weights[i] over i with ids[i] == g (a reduction node:
    two such arrays are equal when their lengths, ids and weights agree pointwise -- never expanded for the solver)."""

    def __init__(self, ctx, length, ids, weights, n_in):
        term = z3.Function(ctx.fresh_name("BINSUM"), z3.IntSort(), z3.RealSort())
        super().__init__(length, lambda g: Sym(term(B._z(g))), "float", "bincount")
        self.ids, self.weights, self.n_in, self.term = ids, weights, n_in, term


def bincount(I, ctx, x, weights=None, minlength=0):
    ctx.assumed_ext.add("numpy.bincount(x, weights, minlength): result[g] = sum of weights over i with x[i] == g (count without weights); "
                        "length = max(minlength, max(x)+1); a sum over a boolean-mask selection equals the masked sum")
    x = as_narr(I, ctx, x)
    w = as_narr(I, ctx, weights) if weights is not None else None
    base_x, mask_x = getattr(x, "masked_from", (x, None))
    if w is not None:
        base_w, mask_w = getattr(w, "masked_from", (w, None))
        if (mask_x is None) != (mask_w is None) or (mask_x is not None and mask_x is not mask_w):
            raise Unsupported("bincount over differently filtered ids and weights")
    else:
        base_w = None
    n_in = base_x.n

    def ids(i):
        return base_x.elem(i)

    def wts(i):
        v = base_w.elem(i) if base_w is not None else 1
        if mask_x is None:
            return v
        return B.ite_val(B.zbool(mask_x.elem(i)), (lambda: v), (lambda: 0))
    # length: max(minlength, max over SELECTED ids + 1)
    ln = ctx.fresh_int("bclen")
    ml = B._z(minlength) if not isinstance(minlength, int) else z3.IntVal(minlength)
    i = z3.Int("i_bc")
    sel = (lambda idx: z3.BoolVal(True)) if mask_x is None else (lambda idx: B.zbool(mask_x.elem(idx)))
    ctx.assume(ln >= ml)
    ctx.assume(z3.ForAll([i], z3.Implies(z3.And(i >= 0, i < B._z(n_in), sel(i)), B.zint(ids(i)) < ln)))
    j = ctx.fresh_int("bcwit")
    ctx.assume(z3.Or(ln == ml, z3.And(j >= 0, j < B._z(n_in), sel(j), B.zint(ids(j)) + 1 == ln)))
    ctx.assume(ln >= 0)
    return BinSum(ctx, ln, ids, wts, n_in)


class MaskEnum:
    """the true positions of a boolean array, enumerated in increasing order: cnt of them, SEL(j) the j-th one,
    RNK(p) the number of true positions before p (assumed numpy contract of boolean-mask indexing)"""

    def __init__(self, ctx, mask):
        n = zn(mask)
        self.n = n
        self.mask = mask
        self.cnt = ctx.fresh_int("cnt")
        self.SEL = z3.Function(ctx.fresh_name("SEL"), z3.IntSort(), z3.IntSort())
        self.RNK = z3.Function(ctx.fresh_name("RNK"), z3.IntSort(), z3.IntSort())
        cnt, sel, rnk = self.cnt, self.SEL, self.RNK
        ctx.assume(z3.And(cnt >= 0, cnt <= n))
        i = z3.Int("i_mask")
        allsel = z3.ForAll([i], z3.Implies(z3.And(i >= 0, i < n), B.zbool(mask.elem(i))))
        ctx.assume((cnt == n) == allsel)
        j, j2, p = z3.Int(ctx.fresh_name("j_sel")), z3.Int(ctx.fresh_name("j2_sel")), z3.Int(ctx.fresh_name("p_sel"))
        ctx.assume(z3.ForAll([j], z3.Implies(z3.And(j >= 0, j < cnt),
                                             z3.And(sel(j) >= 0, sel(j) < n, B.zbool(mask.elem(sel(j))), rnk(sel(j)) == j, z3.Implies(cnt == n, sel(j) == j))),
                             patterns=[sel(j)]))
        ctx.assume(z3.ForAll([p], z3.Implies(z3.And(p >= 0, p < n, B.zbool(mask.elem(p))), z3.And(rnk(p) >= 0, rnk(p) < cnt, sel(rnk(p)) == p)),
                             patterns=[rnk(p)]))
        ctx.assume(z3.ForAll([j, j2], z3.Implies(z3.And(0 <= j, j < j2, j2 < cnt), sel(j) < sel(j2)), patterns=[z3.MultiPattern(sel(j), sel(j2))]))


def mask_enum(ctx, mask):
    """one enumeration per boolean sequence of a path: masks with the same length and the same element formula share it"""
    k = z3.Int("k_mask_key")
    try:
        key = (smt.simp(zn(mask)).sexpr(), smt.simp(B.zbool(mask.elem(k))).sexpr())
    except Exception:
        key = ("object", id(mask), id(mask.elem))
    cache = ctx.ghost.setdefault("mask_enums", {})
    if key not in cache:
        cache[key] = MaskEnum(ctx, mask)
    return cache[key]


def mask_filter(I, ctx, a, mask):
    """a[mask] (assumed numpy contract): the selected elements in order. Length CNT with 0 <= CNT <= n,
    CNT == n iff every element is selected; element j is a[SEL(j)] with mask[SEL(j)] true, SEL(j) = j when all selected."""
    ctx.assumed_ext.add("boolean-mask indexing a[mask]: the elements at the true positions, in increasing order of position; len == len(a) iff all selected")
    n = zn(a)
    ctx.assume(B._z(mask.n) == n)
    en = mask_enum(ctx, mask)
    cnt, sel = en.cnt, en.SEL

    def elem(j):
        return a.elem(smt.simp(sel(B._z(j))))
    r = NArr(cnt, elem, a.dtype, "masked")
    r.mask_all = (lambda idx: z3.Implies(cnt == n, B.zbool(mask.elem(idx))))
    r.masked_from = (a, mask)
    r.mask_enum = en
    return r


def narr_setitem(I, ctx, a, k, v):
    """a[k] = v for an integer (possibly symbolic) index: in place, aliases see it"""
    if isinstance(k, NArr) and k.dtype == "bool":
        # a[mask] = v: a scalar everywhere the mask is true, or an array with one value per true position, in order
        ctx.assumed_ext.add("boolean-mask assignment a[mask] = values: the j-th value goes to the j-th true position; ValueError unless "
                            "there are as many values as true positions")
        old = a.elem
        if isinstance(v, NArr):
            hook = getattr(I, "ghost_masked_assign", None)
            if hook is not None:
                # ghost statement of the contract under verification standing before a masked assignment (a lemma
                # application over the structure of mask and values); it can only add obligations and facts
                hook(ctx, I, a, k, v)
            en = mask_enum(ctx, k)
            if not ctx.branch(zn(v) == en.cnt):
                raise I.raise_exc("ValueError")
            a.elem = (lambda g, old=old, k=k, v=v, en=en: B.ite_val(B.zbool(k.elem(g)), (lambda: v.elem(smt.simp(en.RNK(B._z(g))))), (lambda: old(g))))
            a.assigned_from, a.assigned_enum = v, en
        else:
            a.elem = (lambda g, old=old, k=k, v=v: B.ite_val(B.zbool(k.elem(g)), (lambda: v), (lambda: old(g))))
        return
    if isinstance(k, NArr):
        raise Unsupported("array-indexed assignment needs a contract")
    i = B.norm_index(I, ctx, k, a.n)
    iz = B._z(i)
    old = a.elem
    a.elem = (lambda j, old=old, iz=iz, v=v: B.ite_val(B._z(j) == iz, (lambda: v), (lambda: old(j))))


def narr_getitem(I, ctx, a, k):
    if isinstance(k, NArr) and k.dtype == "bool":
        return mask_filter(I, ctx, a, k)
    if isinstance(k, (int, Sym)) and not isinstance(k, bool):
        i = B.norm_index(I, ctx, k, a.n)
        return a.elem(i)
    if isinstance(k, NArr):
        if k.dtype == "bool":
            raise Unsupported("boolean mask indexing needs a reduction contract")
        ctx.assumed_ext.add("fancy indexing a[idx][i] = a[idx[i]] (negative indices wrap)")

        def elem(i):
            j = B.zint(k.elem(i))
            j2 = z3.If(j < 0, zn(a) + j, j)
            return a.elem(smt.simp(j2))
        r = NArr(k.n, elem, a.dtype, "fancy")
        r.fancy_from = (a, k)
        return r
    if isinstance(k, tuple) and k and k[0] == "slice":
        seq = B.getslice(I, ctx, SeqVal(a.n, a.elem), k)
        return NArr(seq.length, seq.elem, a.dtype, "slice")
    raise Unsupported(f"ndarray index {k!r}")


# ----------------------------------------------------------------------
# 2-D arrays and +infinity (tax scales)
# ----------------------------------------------------------------------
class Inf:
    """numpy.inf (+infinity when positive)"""

    def __init__(self, positive=True):
        self.positive = positive

    def __repr__(self):
        return "+inf" if self.positive else "-inf"


class MaybeInf:
    """a real that is +infinity under condition isinf (and -infinity under condition isneg)"""

    def __init__(self, isinf, val, isneg=None):
        self.isinf, self.val = isinf, val
        self.isneg = isneg if isneg is not None else z3.BoolVal(False)


def ext_le_real(a, x):
    """a <= x for an extended real a and a real x"""
    if isinstance(a, Inf):
        return z3.BoolVal(not a.positive)
    if isinstance(a, MaybeInf):
        return z3.Or(a.isneg, z3.And(z3.Not(a.isinf), B.zreal(a.val) <= x)) if a.val is not None else a.isneg
    return B.zreal(a) <= x


def ext_gt_real(a, x):
    """a > x"""
    if isinstance(a, Inf):
        return z3.BoolVal(a.positive)
    if isinstance(a, MaybeInf):
        return z3.Or(a.isinf, z3.And(z3.Not(a.isneg), B.zreal(a.val) > x)) if a.val is not None else a.isinf
    return B.zreal(a) > x


class NArr2:
    """2-D array as a closure: rows, cols (int or z3 Int), elem(i, j)"""

    def __init__(self, rows, cols, elem, dtype="float", tag=""):
        self.rows, self.cols, self.elem, self.dtype, self.tag = rows, cols, elem, dtype, tag

    def __repr__(self):
        return f"NArr2<{self.dtype}>({self.rows}x{self.cols},{self.tag})"


class DotSum(NArr):
    """vector of sums over an inner index: element i = sum_{k < inner} term(i, k) (reduction node)"""

    def __init__(self, ctx, n, inner, term, tag="dot"):
        t = z3.Function(ctx.fresh_name("DOT"), z3.IntSort(), z3.RealSort())
        super().__init__(n, lambda i: Sym(t(B._z(i))), "float", tag)
        self.inner, self.term, self.fn = inner, term, t
        ctx.ghost.setdefault("dotsums", []).append(self)

    def select_instance(self, i, k):
        """instance of the one-hot lemma (proved by induction in the lemma list): if every other term of row i is zero,
        the sum is term (i, k)"""
        q = z3.Int("k_other")
        others_zero = z3.ForAll([q], z3.Implies(z3.And(q >= 0, q < B._z(self.inner), q != k), B.zreal(self.term(i, q)) == 0))
        return z3.Implies(z3.And(k >= 0, k < B._z(self.inner), others_zero), self.fn(i) == B.zreal(self.term(i, k)))


def num_min(x, y):
    """element minimum with +inf"""
    for a, b in ((x, y), (y, x)):
        if isinstance(a, Inf) and a.positive:
            return b
        if isinstance(a, MaybeInf):
            bv = b
            return B.ite_val(a.isinf, (lambda: bv), (lambda: num_min(a.val, bv)))
    xr, yr = B.zreal(x), B.zreal(y)
    return B.wrap(z3.If(xr <= yr, xr, yr))


def num_max(x, y):
    for a, b in ((x, y), (y, x)):
        if isinstance(a, Inf) and not a.positive:
            return b
        if isinstance(a, MaybeInf):
            return MaybeInf(a.isinf, num_max(a.val, b))
    xr, yr = B.zreal(x), B.zreal(y)
    return B.wrap(z3.If(xr >= yr, xr, yr))


def lift2(op, a, b):
    """element-wise on 2-D / scalars"""
    A = a if isinstance(a, NArr2) else None
    Bv = b if isinstance(b, NArr2) else None
    ref = A or Bv
    return NArr2(ref.rows, ref.cols, lambda i, j: op(A.elem(i, j) if A else a, Bv.elem(i, j) if Bv else b), ref.dtype, "op2")


class RecArr:
    """numpy structured array / recarray of ONE record: field name -> value (a scalar, or a nested RecArr)"""

    def __init__(self, names, fields):
        self.names, self.fields = list(names), dict(fields)

    def __repr__(self):
        return f"RecArr({self.names})"


def recarr_getattr(I, ctx, r, name):
    if name == "view":
        return Builtin("view", lambda ctx2, *a: r)
    if name == "dtype":
        return Opaque(None, "record-dtype", {"fields": {"names": TupleVal(list(r.names))}, "record": True})
    if name in r.fields:
        return r.fields[name]
    return None


WRAP32 = z3.Function("WRAP32", z3.IntSort(), z3.IntSort())
NPROUND = z3.Function("NPROUND", z3.RealSort(), z3.IntSort(), z3.RealSort())
_ORDERS = {}


def order_le(ctx, x, y):
    """x <= y in the sort order numpy uses: numbers by value; elements of an uninterpreted sort (strings) by an
    uninterpreted total order LE_<sort> (axioms assumed once per path)"""
    if isinstance(x, Opaque) and x.e is not None and x.e.sort().kind() == z3.Z3_UNINTERPRETED_SORT:
        srt = x.e.sort()
        if srt.name() not in _ORDERS:
            _ORDERS[srt.name()] = z3.Function("LE_" + srt.name(), srt, srt, z3.BoolSort())
        LE = _ORDERS[srt.name()]
        if not ctx.ghost.get("order_axioms_" + srt.name()):
            ctx.ghost["order_axioms_" + srt.name()] = True
            ctx.assumed_ext.add("the sort order of strings is a total order (uninterpreted)")
            a, b, c = z3.Consts("a_o b_o c_o", srt)
            ctx.assume(z3.ForAll([a, b], z3.Or(LE(a, b), LE(b, a)), patterns=[LE(a, b)]))
            ctx.assume(z3.ForAll([a, b], z3.Implies(z3.And(LE(a, b), LE(b, a)), a == b), patterns=[z3.MultiPattern(LE(a, b), LE(b, a))]))
            ctx.assume(z3.ForAll([a, b, c], z3.Implies(z3.And(LE(a, b), LE(b, c)), LE(a, c)), patterns=[z3.MultiPattern(LE(a, b), LE(b, c))]))
        return LE(x.e, y.e)
    if isinstance(x, (Inf, MaybeInf)) or isinstance(y, (Inf, MaybeInf)):
        # extended reals: -inf <= everything, everything <= +inf
        def parts(v):
            if isinstance(v, Inf):
                return z3.BoolVal(v.positive), z3.BoolVal(not v.positive), None
            if isinstance(v, MaybeInf):
                return v.isinf, v.isneg, v.val
            return z3.BoolVal(False), z3.BoolVal(False), v
        px, nx, vx = parts(x)
        py, ny, vy = parts(y)
        fin = z3.BoolVal(True) if vx is None or vy is None else (B.zreal(vx) <= B.zreal(vy))
        return z3.Or(nx, py, z3.And(z3.Not(px), z3.Not(ny), fin))
    return B.zreal(x) <= B.zreal(y)


def _is_uapp(e):
    return z3.is_app(e) and e.decl().kind() == z3.Z3_OP_UNINTERPRETED and e.num_args() > 0


def install_sorting(I):
    np_tab = I.ext["numpy"]

    def argsort(ctx, a, **kw):
        ctx.assumed_ext.add("numpy.argsort(a): a permutation p of the positions with a[p] in non-decreasing order (stability not assumed)")
        if isinstance(a, NArr2):
            return argsort2(ctx, a, **kw)
        a = as_narr(I, ctx, a)
        n = zn(a)
        SIG = z3.Function(ctx.fresh_name("SIG"), z3.IntSort(), z3.IntSort())
        INV = z3.Function(ctx.fresh_name("SIGINV"), z3.IntSort(), z3.IntSort())
        p, q = z3.Int(ctx.fresh_name("p_s")), z3.Int(ctx.fresh_name("q_s"))
        ctx.assume(z3.ForAll([p], z3.Implies(z3.And(p >= 0, p < n), z3.And(SIG(p) >= 0, SIG(p) < n, INV(SIG(p)) == p)), patterns=[SIG(p)]))
        ep = a.elem(p)
        ep = ep.e if isinstance(ep, (Sym, Opaque)) and getattr(ep, "e", None) is not None else None
        pats = [INV(p)] + ([ep] if ep is not None and _is_uapp(ep) else [])
        ctx.assume(z3.ForAll([p], z3.Implies(z3.And(p >= 0, p < n), z3.And(INV(p) >= 0, INV(p) < n, SIG(INV(p)) == p)), patterns=pats))
        ctx.assume(z3.ForAll([p, q], z3.Implies(z3.And(0 <= p, p < q, q < n), order_le(ctx, a.elem(SIG(p)), a.elem(SIG(q)))),
                             patterns=[z3.MultiPattern(SIG(p), SIG(q))]))
        r = NArr(a.n, lambda i: Sym(SIG(B._z(i))), "int", "argsort")
        r.perm = (SIG, INV)
        return r
    def argsort2(ctx, a, axis=-1, **kw):
        """row-wise argsort of a 2-D array (last axis): per row a permutation (with its inverse) putting the row in non-decreasing
        order. Sorting a result of argsort again: the sorting permutation of a permutation is its inverse - a lemma (proved by
        induction in the lemma library of contracts/c10_groups.py), applied here as a ghost step whose premises are obligations."""
        if axis not in (-1, 1):
            raise Unsupported("2-D argsort along axis 0")
        ctx.assumed_ext.add("numpy.argsort(M) of a 2-D array: per row a permutation p of the columns with M[row, p] in non-decreasing order (stability not assumed)")
        rows, n = B._z(a.rows), B._z(a.cols)
        SIG = z3.Function(ctx.fresh_name("SIG2"), z3.IntSort(), z3.IntSort(), z3.IntSort())
        INV = z3.Function(ctx.fresh_name("SIG2INV"), z3.IntSort(), z3.IntSort(), z3.IntSort())
        g, p, q = z3.Int(ctx.fresh_name("g_s")), z3.Int(ctx.fresh_name("p_s")), z3.Int(ctx.fresh_name("q_s"))
        inrow = z3.And(g >= 0, g < rows)
        ctx.assume(z3.ForAll([g, p], z3.Implies(z3.And(inrow, p >= 0, p < n), z3.And(SIG(g, p) >= 0, SIG(g, p) < n, INV(g, SIG(g, p)) == p)), patterns=[SIG(g, p)]))
        ctx.assume(z3.ForAll([g, p], z3.Implies(z3.And(inrow, p >= 0, p < n), z3.And(INV(g, p) >= 0, INV(g, p) < n, SIG(g, INV(g, p)) == p)), patterns=[INV(g, p)]))
        ctx.assume(z3.ForAll([g, p, q], z3.Implies(z3.And(inrow, 0 <= p, p < q, q < n), order_le(ctx, a.elem(g, SIG(g, p)), a.elem(g, SIG(g, q)))),
                             patterns=[z3.MultiPattern(SIG(g, p), SIG(g, q))]))
        r = NArr2(a.rows, a.cols, lambda i, j: Sym(SIG(B._z(i), B._z(j))), "int", "argsort2")
        r.perm2 = (SIG, INV)
        ctx.ghost.setdefault("argsort2_perms", []).append((SIG, INV))
        inner = getattr(a, "perm2", None)
        if inner is not None:
            P, Q = inner
            ctx.apply_lemma("the-sorting-permutation-of-a-permutation-is-its-inverse",
                            [("the-sorted-rows-are-permutations-with-an-inverse",
                              z3.ForAll([g, p], z3.Implies(z3.And(inrow, p >= 0, p < n), z3.And(P(g, p) >= 0, P(g, p) < n, Q(g, P(g, p)) == p, Q(g, p) >= 0, Q(g, p) < n, P(g, Q(g, p)) == p)))),
                             ("the-result-sorts-them",
                              z3.ForAll([g, p, q], z3.Implies(z3.And(inrow, 0 <= p, p < q, q < n), P(g, SIG(g, p)) <= P(g, SIG(g, q)))))],
                            z3.ForAll([g, p], z3.Implies(z3.And(inrow, p >= 0, p < n), SIG(g, p) == Q(g, p)), patterns=[SIG(g, p)]))
        return r
    np_tab["argsort"] = Builtin("numpy.argsort", argsort)

    def searchsorted(ctx, a, v, side="left", sorter=None):
        ctx.assumed_ext.add("numpy.searchsorted(a, v, side='left', sorter): for each v[i] the position p with sorted[q] < v[i] exactly for q < p")
        if side != "left":
            raise Unsupported("searchsorted side=" + repr(side))
        a, v = as_narr(I, ctx, a), as_narr(I, ctx, v)
        n = zn(a)
        if sorter is not None:
            sorter = as_narr(I, ctx, sorter)
            srt = lambda q: a.elem(smt.simp(B.zint(sorter.elem(q))))
        else:
            srt = lambda q: a.elem(q)
            p, q = z3.Int(ctx.fresh_name("p_s")), z3.Int(ctx.fresh_name("q_s"))
            ctx.oblige("searchsorted.requires.sorted-array", z3.ForAll([p, q], z3.Implies(z3.And(0 <= p, p < q, q < n), order_le(ctx, a.elem(p), a.elem(q)))), kind="requires")
        POS = z3.Function(ctx.fresh_name("SPOS"), z3.IntSort(), z3.IntSort())
        i, q = z3.Int(ctx.fresh_name("i_ss")), z3.Int(ctx.fresh_name("q_ss"))
        ctx.assume(z3.ForAll([i], z3.Implies(z3.And(i >= 0, i < zn(v)), z3.And(POS(i) >= 0, POS(i) <= n)), patterns=[POS(i)]))
        sq = B._z(sorter.elem(q)) if sorter is not None else None
        pats = {"patterns": [z3.MultiPattern(POS(i), sq)]} if sq is not None and _is_uapp(sq) else {}
        ctx.assume(z3.ForAll([i, q], z3.Implies(z3.And(i >= 0, i < zn(v), q >= 0, q < n),
                                                (q < POS(i)) == z3.Not(order_le(ctx, v.elem(i), srt(q)))), **pats))
        return NArr(v.n, lambda j: Sym(POS(B._z(j))), "int", "searchsorted")
    np_tab["searchsorted"] = Builtin("numpy.searchsorted", searchsorted)

    def isin(ctx, element, test_elements):
        ctx.assumed_ext.add("numpy.isin(x, t)[i] = some element of t equals x[i]")
        x, t = as_narr(I, ctx, element), as_narr(I, ctx, test_elements)

        def elem(i):
            j = z3.Int(ctx.fresh_name("j_isin"))
            return B.wrap(z3.Exists([j], z3.And(j >= 0, j < zn(t), B._zb(B.eq_formula(I, ctx, t.elem(j), x.elem(i))))))
        return NArr(x.n, elem, "bool", "isin")
    np_tab["isin"] = Builtin("numpy.isin", isin)

    def unique(ctx, a, return_index=False, return_inverse=False, return_counts=False):
        ctx.assumed_ext.add("numpy.unique(a, return_inverse / return_index): the distinct elements in increasing order; u[inverse[j]] == a[j]; "
                            "a[index[p]] == u[p]")
        if return_counts:
            raise Unsupported("numpy.unique(return_counts)")
        a = as_narr(I, ctx, a)
        n = zn(a)
        m = ctx.fresh_int("n_unique")
        U = NArr(m, None, a.dtype, "unique")
        IDX = z3.Function(ctx.fresh_name("UIDX"), z3.IntSort(), z3.IntSort())     # position in a of the p-th distinct element
        INVF = z3.Function(ctx.fresh_name("UINV"), z3.IntSort(), z3.IntSort())   # rank of a[j] among the distinct elements
        U.elem = lambda p: a.elem(smt.simp(IDX(B._z(p))))
        p, q, j = z3.Int(ctx.fresh_name("p_u")), z3.Int(ctx.fresh_name("q_u")), z3.Int(ctx.fresh_name("j_u"))
        ctx.assume(z3.And(m >= 0, m <= n, (m == 0) == (n == 0)))
        ctx.assume(z3.ForAll([p], z3.Implies(z3.And(p >= 0, p < m), z3.And(IDX(p) >= 0, IDX(p) < n, INVF(IDX(p)) == p)), patterns=[IDX(p)]))
        ctx.assume(z3.ForAll([p, q], z3.Implies(z3.And(0 <= p, p < q, q < m),
                                                z3.And(order_le(ctx, U.elem(p), U.elem(q)), z3.Not(B._zb(B.eq_formula(I, ctx, U.elem(p), U.elem(q)))))),
                             patterns=[z3.MultiPattern(IDX(p), IDX(q))]))
        ctx.assume(z3.ForAll([j], z3.Implies(z3.And(j >= 0, j < n), z3.And(INVF(j) >= 0, INVF(j) < m,
                                                                            B._zb(B.eq_formula(I, ctx, U.elem(INVF(j)), a.elem(j))))), patterns=[INVF(j)]))
        out = [U]
        if return_index:
            out.append(NArr(m, lambda x: Sym(IDX(B._z(x))), "int", "unique_index"))
        if return_inverse:
            out.append(NArr(a.n, lambda x: Sym(INVF(B._z(x))), "int", "unique_inverse"))
        return out[0] if len(out) == 1 else TupleVal(out)
    np_tab["unique"] = Builtin("numpy.unique", unique)


def install2(I):
    np_tab = I.ext["numpy"]
    np_tab["inf"] = Inf(True)

    def tile(ctx, a, reps):
        ctx.assumed_ext.add("numpy.tile(v, (k, 1)): k rows, each a copy of v; .T transposes; outer(a, b)[i, j] = a[i]*b[j]")
        a = as_narr(I, ctx, a)
        if isinstance(reps, (int, Sym)) and not isinstance(reps, bool):
            ctx.assumed_ext.add("numpy.tile(v, k): v repeated k times, element i is v[i mod len(v)]")
            k, n = B.zint(reps), zn(a)
            return NArr(smt.simp(n * k), lambda i: a.elem(smt.simp(z3.If(k == 1, B._z(i), B._z(i) % n))), a.dtype, "tile1")
        reps = I.iterate(ctx, reps)
        if len(reps) != 2 or reps[1] != 1:
            raise Unsupported("numpy.tile with reps other than (k, 1)")
        k = reps[0]
        return NArr2(B._z(k) if not isinstance(k, int) else k, a.n, lambda i, j: a.elem(j), a.dtype, "tile")
    np_tab["tile"] = Builtin("numpy.tile", tile)

    def outer(ctx, a, b):
        a, b = as_narr(I, ctx, a), as_narr(I, ctx, b)

        def el(i, j):
            x, y = a.elem(i), b.elem(j)
            if isinstance(y, Inf):
                ctx.assumed_ext.add("a positive threshold factor times +inf is +inf")
                return y
            if isinstance(y, MaybeInf):
                return MaybeInf(y.isinf, I.binop(ctx, ast.Mult(), x, y.val))
            return I.binop(ctx, ast.Mult(), x, y)
        return NArr2(a.n, b.n, el, "float", "outer")
    np_tab["outer"] = Builtin("numpy.outer", outer)

    def minimum(ctx, a, b):
        if isinstance(a, NArr2) or isinstance(b, NArr2):
            return lift2(num_min, a, b)
        n, elem = lift(I, ctx, num_min, a, b)
        return NArr(n, elem, "float", "minimum")

    def maximum(ctx, a, b):
        if isinstance(a, NArr2) or isinstance(b, NArr2):
            return lift2(num_max, a, b)
        n, elem = lift(I, ctx, num_max, a, b)
        return NArr(n, elem, "float", "maximum")
    np_tab["minimum"] = Builtin("numpy.minimum", minimum)
    np_tab["maximum"] = Builtin("numpy.maximum", maximum)

    def dot(ctx, a, b):
        ctx.assumed_ext.add("numpy.dot(v, M)[i] = sum_k v[k]*M[k, i]; numpy.dot(M, v)[i] = sum_k M[i, k]*v[k]")
        mul = lambda x, y: I.binop(ctx, ast.Mult(), B.wrap(B.zreal(x)) if isinstance(x, Sym) and x.kind == "bool" else x,
                                   B.wrap(B.zreal(y)) if isinstance(y, Sym) and y.kind == "bool" else y)
        if isinstance(b, NArr2):
            v = as_narr(I, ctx, a)
            return DotSum(ctx, b.cols, v.n, lambda i, k: mul(v.elem(k), b.elem(k, i)), "dot(v,M)")
        if isinstance(a, NArr2):
            v = as_narr(I, ctx, b)
            return DotSum(ctx, a.rows, a.cols, lambda i, k: mul(a.elem(i, k), v.elem(k)), "dot(M,v)")
        raise Unsupported("numpy.dot on these shapes")
    np_tab["dot"] = Builtin("numpy.dot", dot)

    def hstack(ctx, parts):
        items = I.iterate(ctx, parts)
        seq = None
        for p in items:
            s = I.as_seq(ctx, p) if not scalar_like(p) and not isinstance(p, Inf) else SeqVal(1, lambda i, p=p: p)
            seq = s if seq is None else B.seq_concat(seq, s)
        return NArr(seq.length, seq.elem, "float", "hstack")
    np_tab["hstack"] = Builtin("numpy.hstack", hstack)
    def digitize(ctx, x, bins, right=False):
        ctx.assumed_ext.add("numpy.digitize(x, increasing bins, right=False)[i] = the idx with bins[idx-1] <= x[i] < bins[idx] (0 / len(bins) at the ends)")
        if right is not False:
            raise Unsupported("digitize(right=True)")
        x, bins = as_narr(I, ctx, x), as_narr(I, ctx, bins)
        IDX = z3.Function(ctx.fresh_name("DIG"), z3.IntSort(), z3.IntSort())
        nb = zn(bins)

        def elem(i):
            iz = B._z(i)
            idx = IDX(iz)
            xv = B.zreal(x.elem(i))
            lo = bins.elem(smt.simp(idx - 1))
            hi = bins.elem(smt.simp(idx))
            ctx.assume(z3.And(idx >= 0, idx <= nb, z3.Implies(idx > 0, ext_le_real(lo, xv)), z3.Implies(idx < nb, ext_gt_real(hi, xv))))
            return Sym(idx)
        return NArr(x.n, elem, "int", "digitize")
    np_tab["digitize"] = Builtin("numpy.digitize", digitize)
    def np_round(ctx, a, decimals=0):
        ctx.assumed_ext.add("numpy.round / around(x, d): element-wise, the same (uninterpreted) function of (value, decimals) everywhere; +-inf stays")
        d = B._z(decimals) if not isinstance(decimals, int) else z3.IntVal(decimals)

        def r1(v):
            if isinstance(v, Inf):
                return v
            if isinstance(v, MaybeInf):
                return MaybeInf(v.isinf, r1(v.val), v.isneg)
            return Sym(NPROUND(B.zreal(v), d))
        if isinstance(a, NArr2):
            return NArr2(a.rows, a.cols, lambda i, j: r1(a.elem(i, j)), a.dtype, "round")
        if isinstance(a, NArr):
            return NArr(a.n, lambda i: r1(a.elem(i)), a.dtype, "round")
        return r1(a)
    np_tab["round"] = Builtin("numpy.round", np_round)
    np_tab["around"] = Builtin("numpy.around", np_round)
    np_tab["size"] = Builtin("numpy.size", lambda ctx, a: B.wrap(zn(as_narr(I, ctx, a))) if not isinstance(a, NArr2) else B.wrap(B._z(a.rows) * B._z(a.cols)))
    np_tab["finfo"] = Builtin("numpy.finfo", lambda ctx, t: Opaque(None, "finfo", {"fields": {"eps": 0}}))
    np_tab["float64"] = np_tab.get("float64")


def narr2_getattr(I, ctx, a, name):
    if name == "T":
        return NArr2(a.cols, a.rows, lambda i, j: a.elem(j, i), a.dtype, "T")
    if name == "transpose":
        return Builtin("transpose", lambda ctx2: NArr2(a.cols, a.rows, lambda i, j: a.elem(j, i), a.dtype, "T"))
    if name == "sum":
        def s(ctx2, axis=None):
            if axis != 1:
                raise Unsupported("2-D sum with axis != 1")
            conv = (lambda v: B.wrap(B.zreal(v))) if a.dtype == "bool" else (lambda v: v)
            return DotSum(ctx2, a.rows, a.cols, lambda i, k: conv(a.elem(i, k)), "rowsum")
        return Builtin("sum", s)
    if name == "shape":
        return TupleVal([B.wrap(B._z(a.rows)), B.wrap(B._z(a.cols))])
    return None


def narr2_getitem(I, ctx, a, k):
    if isinstance(k, TupleVal) and len(k.items) == 2:
        r, c = k.items
        full = lambda s: isinstance(s, tuple) and s[0] == "slice" and s[1] is None and s[2] is None
        if full(r) and isinstance(c, tuple) and c[0] == "slice":
            _, lo, hi, st = c
            off = 0 if lo is None else lo
            if not isinstance(off, int) or off < 0 or (hi is not None and not (isinstance(hi, int) and hi < 0)):
                raise Unsupported("2-D column slice")
            drop_end = 0 if hi is None else -hi
            cols = smt.simp(B._z(a.cols) - off - drop_end)
            return NArr2(a.rows, cols, lambda i, j: a.elem(i, smt.simp(B._z(j) + off)), a.dtype, "colslice")
        if isinstance(r, NArr) and isinstance(c, NArr) and r.dtype in ("int", "uint8") and c.dtype in ("int", "uint8"):
            # M[rows, cols] with two index vectors: element i is M[rows[i], cols[i]]; indices inside the array are an obligation
            # (numpy raises IndexError outside [-n, n); negative ones would wrap)
            ctx.assumed_ext.add("2-D fancy indexing M[r, c][i] = M[r[i], c[i]] for index vectors of one length")
            if not ctx.branch(zn(r) == zn(c)):
                raise I.raise_exc("IndexError")
            i = z3.Int(ctx.fresh_name("i_fx"))
            ri, ci = B.zint(r.elem(i)), B.zint(c.elem(i))
            ctx.oblige("fancy-index.requires.indices-inside-the-array",
                       z3.ForAll([i], z3.Implies(z3.And(i >= 0, i < zn(r)), z3.And(ri >= 0, ri < B._z(a.rows), ci >= 0, ci < B._z(a.cols)))), kind="requires")
            return NArr(r.n, lambda x: a.elem(smt.simp(B.zint(r.elem(x))), smt.simp(B.zint(c.elem(x)))), a.dtype, "fancy2")
    raise Unsupported(f"2-D index {k!r}")
