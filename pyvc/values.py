"""Value domains of the pyvc symbolic executor (DESIGN.md 2.3)."""
from __future__ import annotations

import z3


class PyvcError(Exception):
    """Checker error (unsupported construct, missing contract ...): exit 3, never a verdict."""


class Unsupported(PyvcError):
    pass


class Sym:
    """Symbolic scalar: a z3 expression of sort Int, Bool or Real."""
    __slots__ = ("e",)

    def __init__(self, e):
        self.e = e

    @property
    def kind(self):
        s = self.e.sort()
        if s == z3.IntSort():
            return "int"
        if s == z3.BoolSort():
            return "bool"
        if s == z3.RealSort():
            return "real"
        return "other"

    def __repr__(self):
        return f"Sym({self.e})"


class Opaque:
    """Value of an uninterpreted sort (array contents, formula callables, ...)."""
    __slots__ = ("e", "tag", "attrs")

    def __init__(self, e, tag="", attrs=None):
        self.e = e
        self.tag = tag
        self.attrs = attrs or {}

    def __repr__(self):
        return f"Opaque<{self.tag}>({self.e})"


class TupleVal:
    __slots__ = ("items", "cls")

    def __init__(self, items, cls=None):
        self.items = tuple(items)
        self.cls = cls

    def __repr__(self):
        n = self.cls.name if self.cls else "tuple"
        return f"{n}{self.items!r}"


class ListVal:
    """Mutable list with concrete length (identity = python identity)."""
    __slots__ = ("items",)

    def __init__(self, items=()):
        self.items = list(items)

    def __repr__(self):
        return f"ListVal{self.items!r}"


class SeqVal:
    """Immutable closure sequence: symbolic length + element function (DESIGN 2.3)."""
    __slots__ = ("length", "elem", "tag")

    def __init__(self, length, elem, tag=""):
        self.length = length  # python int or z3 Int expr
        self.elem = elem      # callable(index: int|z3 Int) -> value
        self.tag = tag

    def __repr__(self):
        return f"SeqVal<{self.tag}>(len={self.length})"


class NpScalar(Sym):
    """a numpy scalar (numpy.float64, numpy.int64 ...): a symbolic number that is an instance of its numpy class, not of the
    python number types it does not derive from"""
    __slots__ = ("np_scalar", "cls")

    def __init__(self, e, np_scalar, cls):
        Sym.__init__(self, e)
        self.np_scalar, self.cls = np_scalar, cls


class SymList:
    """Mutable list cell whose content is a closure sequence."""
    __slots__ = ("seq",)

    def __init__(self, seq):
        self.seq = seq

    def __repr__(self):
        return f"SymList({self.seq!r})"


class DictVal:
    """Mutable dict with concrete (hashable) keys; insertion ordered."""
    __slots__ = ("items", "keyvals", "sym")

    def __init__(self):
        self.items = {}     # hkey -> value
        self.keyvals = {}   # hkey -> original key value
        self.sym = []       # [[key value, value]] entries whose key is symbolic (looked up by equality formulas)

    def __repr__(self):
        return f"DictVal({list(self.keyvals.values())!r})"


class MapVal:
    """Mutable dict with symbolic keys in closure form: lookup(key value) -> (present: z3 Bool, value)."""
    __slots__ = ("lookup", "tag", "pairs")

    def __init__(self, lookup, tag="", pairs=None):
        self.lookup = lookup
        self.tag = tag
        self.pairs = pairs      # optional explicit [(key value, value)] list (finitely many symbolic keys): keys()/items() work

    def __repr__(self):
        return f"MapVal<{self.tag}>"


class SetVal:
    __slots__ = ("items",)

    def __init__(self):
        self.items = {}  # hkey -> value

    def __repr__(self):
        return f"SetVal({list(self.items.values())!r})"


class Obj:
    """Heap object with concrete identity, class tag and field map."""
    __slots__ = ("cls", "fields", "label")
    _n = 0

    def __init__(self, cls, fields=None, label=None):
        self.cls = cls
        self.fields = fields if fields is not None else {}
        Obj._n += 1
        self.label = label or f"{cls.name if cls else 'obj'}#{Obj._n}"

    def __repr__(self):
        return f"<{self.label}>"


class ClassVal:
    def __init__(self, name, module, bases, ns, node=None, metaclass=None, external=None):
        self.name = name
        self.module = module      # ModuleVal or None
        self.bases = bases        # list of ClassVal
        self.ns = ns              # dict
        self.node = node
        self.metaclass = metaclass
        self.external = external  # name of external python type this stands for (e.g. 'tuple')
        self.enum_members = None  # ordered dict name -> EnumMember for enum classes
        self._mro = None

    @property
    def qualname(self):
        return f"{self.module.name}.{self.name}" if self.module else self.name

    def mro(self):
        if self._mro is None:
            self._mro = _c3(self)
        return self._mro

    def lookup(self, name):
        for c in self.mro():
            if name in c.ns:
                return c.ns[name], c
        return None, None

    def is_subclass(self, other):
        return other in self.mro()

    def __repr__(self):
        return f"<class {self.qualname}>"


def _c3(cls):
    seqs = [list(b.mro()) for b in cls.bases] + [list(cls.bases)]
    res = [cls]
    while True:
        seqs = [s for s in seqs if s]
        if not seqs:
            return res
        for s in seqs:
            cand = s[0]
            if not any(cand in t[1:] for t in seqs):
                break
        else:
            raise PyvcError(f"inconsistent MRO for {cls.name}")
        res.append(cand)
        for s in seqs:
            if s[0] is cand:
                del s[0]


class EnumMember:
    __slots__ = ("cls", "name", "value", "index")

    def __init__(self, cls, name, value, index=0):
        self.cls = cls
        self.name = name
        self.value = value
        self.index = index

    def __repr__(self):
        return f"<{self.cls.name}.{self.name}>"


class FuncVal:
    def __init__(self, node, module, closure=None, cls=None, qualname=None):
        self.node = node
        self.module = module
        self.closure = closure   # Env or None
        self.cls = cls           # defining class (for super())
        self.name = node.name if hasattr(node, "name") else "<lambda>"
        self.qualname = qualname or self.name
        self.defaults = None     # evaluated lazily

    def __repr__(self):
        return f"<function {self.qualname}>"


class BoundMethod:
    __slots__ = ("func", "self")

    def __init__(self, func, self_):
        self.func = func
        self.self = self_

    def __repr__(self):
        return f"<bound {self.func!r} of {self.self!r}>"


class Builtin:
    """A modelled python/external callable: fn(ctx, *args, **kwargs) -> value."""
    __slots__ = ("name", "fn", "attrs")

    def __init__(self, name, fn, attrs=None):
        self.name = name
        self.fn = fn
        self.attrs = attrs or {}

    def __repr__(self):
        return f"<builtin {self.name}>"


class PropertyVal:
    __slots__ = ("fget", "fset")

    def __init__(self, fget, fset=None):
        self.fget = fget
        self.fset = fset


class ClassMethodVal:
    __slots__ = ("func",)

    def __init__(self, func):
        self.func = func


class StaticMethodVal:
    __slots__ = ("func",)

    def __init__(self, func):
        self.func = func


class DispatchVal:
    """functools.singledispatch object: default + registered overloads keyed by annotation text."""

    def __init__(self, default):
        self.default = default
        self.registry = []  # (annotation source text, FuncVal)
        self.name = default.name
        self.qualname = default.qualname


class CachedFunc:
    """functools.lru_cache wrapper; the memo is ghost state handled by contracts."""

    def __init__(self, func):
        self.func = func


class ModuleVal:
    def __init__(self, name, path=None, external=None):
        self.name = name
        self.path = path
        self.ns = {}
        self.lazy = {}       # name -> thunk
        self.loading = set()
        self.registrations = {}
        self.external = external
        self.is_pkg = False

    def __repr__(self):
        return f"<module {self.name}>"


class FmtStr:
    """Symbolic string built by an f-string / str(): list of parts (python str or values)."""
    __slots__ = ("parts",)

    def __init__(self, parts):
        self.parts = parts

    def __repr__(self):
        return f"FmtStr({self.parts!r})"


class IsoStr:
    """ISO 'YYYY-MM-DD' string of a symbolic date, with its order embedding key
    (assumption 4 of DESIGN 2.2: string order of ISO dates with 4-digit years = date order)."""
    __slots__ = ("y", "m", "d", "key")

    def __init__(self, y=None, m=None, d=None, key=None):
        self.y, self.m, self.d = y, m, d
        if key is None:
            key = y * 10000 + m * 100 + d
        self.key = key

    def __repr__(self):
        return f"IsoStr({self.key})"


class ExcVal(Exception):
    """A modelled python exception travelling through the interpreter."""

    def __init__(self, cls, args=(), obj=None):
        super().__init__(cls.name if hasattr(cls, "name") else str(cls))
        self.cls = cls
        self.args_ = args
        self.obj = obj
        self.cause = None

    def __repr__(self):
        return f"ExcVal({self.cls.name})"


NOT_IMPLEMENTED = Builtin("NotImplemented", None)
ELLIPSIS = Builtin("Ellipsis", None)
