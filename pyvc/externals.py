"""Models of external libraries = assumed contracts (DESIGN 2.7). Every model used on a path is
recorded in ctx.assumed_ext and reported as trusted base."""
from __future__ import annotations

import z3

from . import smt
from . import builtins_ as B
from . import theory_cal as cal
from .values import (Builtin, ClassVal, DictVal, EnumMember, ExcVal, FmtStr, FuncVal, IsoStr, ListVal, ModuleVal,
                     Obj, Opaque, PyvcError, SeqVal, SetVal, Sym, SymList, TupleVal, Unsupported)


def install(I):
    obj = I.builtins["object"]
    ext = I.ext

    def cls(name, external, bases=None, ns=None, metaclass=None):
        c = ClassVal(name, None, bases or [obj], ns or {}, external=external, metaclass=metaclass)
        return c

    ident = Builtin("identity", lambda ctx, x=None, *a, **k: x)
    noop = Builtin("noop", lambda ctx, *a, **k: None)

    # ---- typing & friends ------------------------------------------------
    generic = cls("Generic", "typing.Generic")
    generic.ns["__generic__"] = True
    protocol = cls("Protocol", "typing.Protocol")
    protocol.ns["__generic__"] = True
    namedtuple = cls("NamedTuple", "typing.NamedTuple", [I.builtins["tuple"]])
    typeddict = cls("TypedDict", "typing.TypedDict", [I.builtins["dict"]])

    def typevar(ctx, *a, **k):
        return None
    typing_tab = {
        "Generic": generic, "Protocol": protocol, "NamedTuple": namedtuple, "TypedDict": typeddict,
        "TypeVar": Builtin("TypeVar", typevar), "NewType": Builtin("NewType", lambda ctx, n, b: b),
        "TYPE_CHECKING": False, "cast": Builtin("cast", lambda ctx, t, v: v),
        "overload": ident, "runtime_checkable": ident, "final": ident,
    }
    for n in ("Any", "Union", "Optional", "Callable", "Iterable", "Iterator", "Sequence", "Mapping", "NoReturn",
              "TypeAlias", "Required", "Self", "Literal", "ClassVar", "Type", "Dict", "List", "Tuple", "Set",
              "TypeGuard", "TypeIs", "NotRequired", "Annotated", "ArrayLike", "NDArray", "DTypeLike", "Hashable",
              "MutableMapping", "KeysView", "Sized", "Container", "Collection", "Generator", "Unpack"):
        typing_tab.setdefault(n, Builtin("typing." + n, None))
    ext["typing"] = typing_tab
    ext["typing_extensions"] = typing_tab
    ext["numpy.typing"] = typing_tab
    abc_seq = cls("Sequence", "collections.abc.Sequence")
    abc_seq.ns["__generic__"] = True
    abc_map = cls("Mapping", "collections.abc.Mapping")
    abc_map.ns["__generic__"] = True
    abc_mmap = cls("MutableMapping", "collections.abc.MutableMapping", [abc_map])
    abc_mmap.ns["__generic__"] = True
    abc_iter = cls("Iterable", "collections.abc.Iterable")
    abc_iter.ns["__generic__"] = True
    ext["collections.abc"] = dict(typing_tab, Sequence=abc_seq, Mapping=abc_map, MutableMapping=abc_mmap,
                                  Iterable=abc_iter)
    def deque(ctx, iterable=(), maxlen=None):
        # collections.deque over a concrete number of items: a list with the two extra end operations
        if maxlen is not None:
            raise Unsupported("deque(maxlen=...)")
        d = ListVal(I.iterate(ctx, iterable))
        return Opaque(None, "deque", {"list": d, "truth": lambda ctx2: len(d.items) > 0, "getattr": lambda ctx2, n: _deque_attr(d, n),
                                      "iter": lambda ctx2: list(d.items), "len": lambda ctx2: len(d.items)})

    def _deque_attr(d, n):
        def popleft(ctx2):
            if not d.items:
                raise I.raise_exc("IndexError")
            return d.items.pop(0)

        def pop(ctx2):
            if not d.items:
                raise I.raise_exc("IndexError")
            return d.items.pop()
        tab = {"popleft": popleft, "pop": pop, "append": lambda ctx2, x: d.items.append(x), "appendleft": lambda ctx2, x: d.items.insert(0, x),
               "extend": lambda ctx2, it: d.items.extend(I.iterate(ctx2, it)),
               "extendleft": lambda ctx2, it: [d.items.insert(0, x) for x in I.iterate(ctx2, it)] and None,
               "clear": lambda ctx2: d.items.clear()}
        if n in tab:
            return Builtin("deque." + n, tab[n])
        from .interp import _MISSING
        return _MISSING
    ext["collections"] = {"abc": None, "OrderedDict": I.builtins["dict"], "defaultdict": Builtin("defaultdict", None),
                          "deque": Builtin("collections.deque", deque)}

    # ---- itertools ------------------------------------------------------------
    def islice(ctx, it, *a):
        """itertools.islice(seq, start, None) / islice(seq, stop): the corresponding slice of the sequence, lazily"""
        from . import builtins_ as BB
        if len(a) == 1:
            start, stop = 0, a[0]
        elif len(a) == 2:
            start, stop = a
        else:
            raise Unsupported("itertools.islice with a step")
        if not isinstance(start, int) and start is not None:
            raise Unsupported("itertools.islice with a symbolic start")
        if I.is_symbolic_seq(it) or not isinstance(it, ListVal):
            seq = I.as_seq(ctx, it)
            return BB.getslice(I, ctx, seq, ("slice", start or None, stop, None))
        items = I.iterate(ctx, it)
        return ListVal(items[(start or 0):stop])
    ext["itertools"] = {"islice": Builtin("itertools.islice", islice)}

    # ---- abc / functools / enum -------------------------------------------
    abcmeta = cls("ABCMeta", "abc.ABCMeta", [I.builtins["type"]])
    abc_ = cls("ABC", "abc.ABC")
    ext["abc"] = {"ABC": abc_, "ABCMeta": abcmeta, "abstractmethod": ident}
    ext["functools"] = {"singledispatch": Builtin("singledispatch", None), "lru_cache": Builtin("lru_cache", None),
                        "wraps": Builtin("wraps", lambda ctx, f: ident), "partial": Builtin("partial", None),
                        "reduce": Builtin("reduce", None), "cache": Builtin("cache", None)}
    enummeta = cls("EnumMeta", "enum.EnumMeta", [I.builtins["type"]])
    enum_ = cls("Enum", "enum.Enum", metaclass=enummeta)
    strenum = cls("StrEnum", "strenum.StrEnum", [I.builtins["str"], enum_], metaclass=enummeta)
    ext["enum"] = {"auto": Builtin("enum.auto", lambda ctx: AUTO), "Enum": enum_, "EnumMeta": enummeta, "EnumType": enummeta, "StrEnum": strenum,
                   "IntEnum": cls("IntEnum", "enum.IntEnum", [I.builtins["int"], enum_])}
    ext["strenum"] = {"StrEnum": strenum}

    # ---- dataclasses -------------------------------------------------------
    class FieldSpec:
        def __init__(self, default=None, default_factory=None, has_default=False):
            self.default, self.default_factory, self.has_default = default, default_factory, has_default

    def dc_field(ctx, default=None, default_factory=None, **k):
        return FieldSpec(default, default_factory, default is not None or default_factory is not None)

    def dataclass(ctx, c=None, **kw):
        import ast as _ast
        if c is None:
            return Builtin("dataclass", lambda ctx2, c2: dataclass(ctx2, c2))
        ctx.assumed_ext.add("dataclasses.dataclass: generated __init__ assigns the declared fields in order (defaults / default_factory per instance)")
        fields = []
        for k in reversed(c.mro()):
            if k.node is None:
                continue
            for st in k.node.body:
                if isinstance(st, _ast.AnnAssign) and isinstance(st.target, _ast.Name):
                    nm = st.target.id
                    spec = k.ns.get(nm, None) if st.value is not None else None
                    fields = [f for f in fields if f[0] != nm]
                    fields.append((nm, st.value is not None, spec))

        def init(ctx2, self_, *args, **kwargs):
            args = list(args)
            for i, (nm, has, spec) in enumerate(fields):
                if i < len(args):
                    v = args[i]
                elif nm in kwargs:
                    v = kwargs.pop(nm)
                elif isinstance(spec, FieldSpec):
                    v = I.call(ctx2, spec.default_factory, [], {}) if spec.default_factory is not None else spec.default
                elif has:
                    v = spec
                else:
                    raise I.raise_exc("TypeError")
                self_.fields[nm] = v
            if kwargs or len(args) > len(fields):
                raise I.raise_exc("TypeError")
        c.ns["__init__"] = Builtin(c.name + ".__init__", init, {"method": True})
        for nm, has, spec in fields:
            if isinstance(spec, FieldSpec):
                c.ns.pop(nm, None)
        return c
    ext["dataclasses"] = {"dataclass": Builtin("dataclass", dataclass), "field": Builtin("field", dc_field)}

    # ---- misc stdlib ---------------------------------------------------------
    ext["warnings"] = {"warn": noop}
    ext["logging"] = {"getLogger": Builtin("getLogger", lambda ctx, *a: Opaque(None, "logger")), "INFO": 20,
                      "DEBUG": 10, "WARNING": 30}
    ext["os"] = {"linesep": "\n", "path": None, "pardir": ".."}
    ext["sys"] = {"version_info": TupleVal((3, 12, 1)), "platform": "linux", "maxsize": 2 ** 63 - 1}
    ext["time"] = {"time_ns": Builtin("time.time_ns", lambda ctx: Sym(ctx.fresh_int("time_ns")))}
    ext["textwrap"] = {"dedent": ident}

    # ---- re: concrete strings are matched by the real engine; symbolic ones by regex derivatives (fmtterms)
    import re as _re

    def re_compile(ctx, pattern, flags=0):
        rx = _re.compile(pattern, flags)

        def match(ctx, s, kind="match"):
            s2 = B.enum_str(s)
            if isinstance(s2, str):
                m = getattr(rx, kind)(s2)
                if m is None:
                    return None
                groups = m.groups()
                return Opaque(None, "re.Match", {"truth": lambda ctx: True, "getattr": lambda ctx, n: Builtin("group", lambda ctx, k=0: m.group(k)) if n == "group" else
                                                  Builtin("groups", lambda ctx: TupleVal(groups)) if n == "groups" else None})
            from . import fmtterms
            return fmtterms.regex_match(I, ctx, pattern, s, kind)

        def ga(ctx, name):
            if name in ("match", "fullmatch", "search"):
                return Builtin("re." + name, lambda ctx, s: match(ctx, s, name))
            if name == "pattern":
                return pattern
            from .interp import _MISSING
            return _MISSING
        return Opaque(None, "re.Pattern", {"getattr": ga, "pattern": pattern})
    def bisect_left(ctx, lst, x, right=False):
        # contract of bisect.bisect_left on a sorted list: the insertion point that keeps it sorted, before equal items
        import z3
        seq = I.as_seq(ctx, lst)
        n = B._z(seq.length)
        ctx.assumed_ext.add("bisect.bisect_left(sorted list, x) = i with all(e < x for e in a[:i]) and all(e >= x for e in a[i:])")
        from .values import IsoStr as _Iso

        def num(v):
            if isinstance(v, _Iso):
                return z3.ToReal(B._z(v.key))            # ISO dates compare as their date keys
            return B.zreal(v)
        a, b = z3.Int(ctx.fresh_name("bs_a")), z3.Int(ctx.fresh_name("bs_b"))
        ctx.oblige("bisect_left.requires.list-is-sorted",
                   z3.ForAll([a, b], z3.Implies(z3.And(0 <= a, a < b, b < n), num(seq.elem(a)) <= num(seq.elem(b)))), kind="requires")
        i = ctx.fresh_int("bisect")
        q = z3.Int(ctx.fresh_name("bs_q"))
        e = num(seq.elem(q))
        ctx.assume(z3.And(i >= 0, i <= n))
        simple = z3.is_app(e) and e.decl().kind() == z3.Z3_OP_UNINTERPRETED
        ctx.assume(z3.ForAll([q], z3.Implies(z3.And(0 <= q, q < n), (q < i) == ((e <= num(x)) if right else (e < num(x)))),
                             **({"patterns": [e]} if simple else {})))
        return B.wrap(i)
    def insort(ctx, lst, x, right=True):
        i = bisect_left(ctx, lst, x, right=right)
        m = I.getattr(ctx, lst, "insert")
        I.call(ctx, m, [i, x], {})
    ext["bisect"] = {"bisect_left": Builtin("bisect.bisect_left", bisect_left),
                     "insort": Builtin("bisect.insort", insort), "insort_right": Builtin("bisect.insort_right", insort),
                     "insort_left": Builtin("bisect.insort_left", lambda ctx, lst, x: insort(ctx, lst, x, right=False)),
                     "bisect_right": Builtin("bisect.bisect_right", lambda ctx, lst, x: bisect_left(ctx, lst, x, right=True)),
                     "bisect": Builtin("bisect.bisect", lambda ctx, lst, x: bisect_left(ctx, lst, x, right=True))}
    ext["re"] = {"compile": Builtin("re.compile", re_compile),
                 "match": Builtin("re.match", lambda ctx, p, s, flags=0: I.call(ctx, I.getattr(ctx, re_compile(ctx, p, flags), "match"), [s], {}))}

    # ---- dates -----------------------------------------------------------------
    install_dates(I, cls)

    from . import nparr
    nparr.install(I)

    # ---- copy ------------------------------------------------------------------
    from . import heapcopy
    ext["copy"] = {"copy": Builtin("copy.copy", lambda ctx, v: heapcopy.shallow(I, ctx, v)),
                   "deepcopy": Builtin("copy.deepcopy", lambda ctx, v, memo=None: heapcopy.deep(I, ctx, v))}


# ----------------------------------------------------------------------
# pendulum / datetime / calendar
# ----------------------------------------------------------------------
def date_fields(o):
    return o.fields["y"], o.fields["m"], o.fields["d"]


def install_dates(I, cls):
    ext = I.ext
    dt_date = cls("date", "datetime.date")
    p_date = cls("Date", "pendulum.Date", [dt_date])
    interval = cls("Interval", "pendulum.Interval")
    I.date_class = p_date
    I.dt_date_class = dt_date

    def zi(v):
        return B.zint(v)

    def mk_date(c, y, m, d):
        return Obj(c, {"y": B.wrap(zi(y)) if not isinstance(y, int) else y,
                       "m": B.wrap(zi(m)) if not isinstance(m, int) else m,
                       "d": B.wrap(zi(d)) if not isinstance(d, int) else d})
    I.mk_date = lambda y, m, d: mk_date(p_date, y, m, d)

    def ordinal_of(o):
        y, m, d = date_fields(o)
        return cal.ordinal(zi(y), zi(m), zi(d))
    I.date_ordinal = ordinal_of

    def ctor(c):
        def new(ctx, cl, y, m, d):
            ctx.assumed_ext.add(f"{c.external}(y,m,d): ValueError outside 1..9999 / calendar")
            ok = cal.valid(zi(y), zi(m), zi(d))
            if not ctx.branch(ok):
                raise I.raise_exc("ValueError")
            return mk_date(c, y, m, d)
        return new
    dt_date.ns["__new_model__"] = ctor(dt_date)
    p_date.ns["__new_model__"] = ctor(p_date)

    def _concrete_ordinal(e):
        """value of an ordinal expression whose only non-arithmetic parts are ORD3 applications to numerals, else None"""
        from . import calmodel
        try:
            e = z3.simplify(e) if z3.is_expr(e) else e
            subs, work, seen = [], [e], set()
            while work:
                x = work.pop()
                if not z3.is_expr(x) or x.get_id() in seen:
                    continue
                seen.add(x.get_id())
                if z3.is_app(x) and x.decl().name() == "ORD3":
                    args = [z3.simplify(x.arg(i)) for i in range(3)]
                    if not all(z3.is_int_value(a) for a in args):
                        return None
                    yy, mm, dd = (a.as_long() for a in args)
                    if not calmodel.valid(yy, mm, dd):
                        return None
                    subs.append((x, z3.IntVal(calmodel.ordinal(yy, mm, dd))))
                    continue
                work.extend(x.children())
            v = z3.simplify(z3.substitute(e, *subs)) if subs else e
            return v.as_long() if z3.is_int_value(v) else None
        except Exception:
            return None

    def fresh_date(ctx, c, ord_expr, base="dt"):
        """fresh valid triple whose ordinal equals ord_expr (assumption: stays within years 1..9999)"""
        conc = _concrete_ordinal(ord_expr)
        if conc is not None:
            # a concrete day number: the date itself (closed form evaluated in Python, pyvc/calmodel.py), no fresh triple
            from . import calmodel
            yy, mm, dd = calmodel.civil(conc)
            if 1 <= yy <= 9999:
                return mk_date(c, z3.IntVal(yy), z3.IntVal(mm), z3.IntVal(dd))
        y, m, d = ctx.fresh_int(base + "_y"), ctx.fresh_int(base + "_m"), ctx.fresh_int(base + "_d")
        ctx.assume(cal.valid(y, m, d))
        ctx.assume(cal.ordinal(y, m, d) == ord_expr)
        return mk_date(c, y, m, d)
    I.fresh_date = lambda ctx, ord_expr: fresh_date(ctx, p_date, ord_expr)

    def m_add(ctx, self, years=0, months=0, weeks=0, days=0):
        ctx.assumed_ext.add("pendulum.Date.add: months/years first with end-of-month clipping, then days; result within years 1..9999")
        y, m, d = (zi(x) for x in date_fields(self))
        n = smt.simp(12 * zi(years) + zi(months))
        k = smt.simp(7 * zi(weeks) + zi(days))
        c = self.cls
        if z3.is_int_value(n) and n.as_long() == 0:
            if z3.is_int_value(k) and k.as_long() == 0:
                return mk_date(c, y, m, d)
            return fresh_date(ctx, c, cal.ordinal(y, m, d) + k)
        t2 = smt.simp(cal.tidx(y, m) + n)
        y2, m2 = t2 / 12, t2 % 12 + 1
        d2 = z3.If(d <= cal.DIM(t2), d, cal.DIM(t2))
        ctx.assume(z3.And(t2 >= cal.T_MIN, t2 <= cal.T_MAX - 12))
        if z3.is_int_value(k) and k.as_long() == 0:
            return mk_date(c, y2, m2, d2)
        return fresh_date(ctx, c, cal.OM(t2) + d2 - 1 + k)

    def m_subtract(ctx, self, years=0, months=0, weeks=0, days=0):
        neg = lambda v: I.binop(ctx, __import__("ast").Sub(), 0, v)
        return m_add(ctx, self, neg(years), neg(months), neg(weeks), neg(days))

    def m_start_of(ctx, self, unit):
        ctx.assumed_ext.add("pendulum.Date.start_of/end_of: week = Monday..Sunday, month, year")
        y, m, d = (zi(x) for x in date_fields(self))
        if unit == "week":
            o = cal.ordinal(y, m, d)
            return fresh_date(ctx, self.cls, o - cal.weekday0(o))
        if unit == "month":
            return mk_date(self.cls, y, m, 1)
        if unit == "year":
            return mk_date(self.cls, y, 1, 1)
        raise Unsupported(f"start_of({unit!r})")

    def m_end_of(ctx, self, unit):
        ctx.assumed_ext.add("pendulum.Date.start_of/end_of: week = Monday..Sunday, month, year")
        y, m, d = (zi(x) for x in date_fields(self))
        if unit == "week":
            o = cal.ordinal(y, m, d)
            return fresh_date(ctx, self.cls, o + 6 - cal.weekday0(o))
        if unit == "month":
            return mk_date(self.cls, y, m, cal.DIM(cal.tidx(y, m)))
        if unit == "year":
            return mk_date(self.cls, y, 12, 31)
        raise Unsupported(f"end_of({unit!r})")

    def m_sub(ctx, self, other):
        if isinstance(other, Obj) and other.cls.is_subclass(dt_date):
            ctx.assumed_ext.add("date - date: .days = difference of proleptic Gregorian ordinals")
            return Obj(interval, {"days": B.wrap(ordinal_of(self) - ordinal_of(other))})
        raise Unsupported("date - non-date")

    def m_diff(ctx, self, other):
        ctx.assumed_ext.add("pendulum diff().in_weeks() = floor(|days| / 7)")
        return Obj(interval, {"days": B.wrap(ordinal_of(other) - ordinal_of(self))})

    def m_in_weeks(ctx, self):
        dd = zi(self.fields["days"])
        a = z3.If(dd < 0, -dd, dd)
        return B.wrap(a / 7)

    def m_in_days(ctx, self):
        return self.fields["days"]

    def m_isoformat(ctx, self):
        ctx.assumed_ext.add("date.isoformat(): 'YYYY-MM-DD' (years 1000..9999: string order = date order)")
        if all(isinstance(x, int) for x in date_fields(self)):
            return "%04d-%02d-%02d" % tuple(date_fields(self))
        y, m, d = (zi(x) for x in date_fields(self))
        return IsoStr(y, m, d)

    def m_isocalendar(ctx, self):
        ctx.assumed_ext.add("date.isocalendar(): ISO 8601 week date through the Thursday of the week")
        return iso_calendar(I, ctx, self)

    def m_cmp(op):
        def f(ctx, self, other):
            import ast
            if not (isinstance(other, Obj) and other.cls.is_subclass(dt_date)):
                return B.NOT_IMPLEMENTED
            a = TupleVal(date_fields(self))
            b = TupleVal(date_fields(other))
            return B.builtin_compare(I, ctx, op, a, b)
        return f
    import ast as _ast
    for c in (dt_date, p_date):
        ns = c.ns
        ns["year"] = _prop(lambda ctx, self: self.fields["y"])
        ns["month"] = _prop(lambda ctx, self: self.fields["m"])
        ns["day"] = _prop(lambda ctx, self: self.fields["d"])
        ns["isoformat"] = _meth("isoformat", m_isoformat)
        ns["isocalendar"] = _meth("isocalendar", m_isocalendar)
        ns["isoweekday"] = _meth("isoweekday", lambda ctx, self: B.wrap(cal.weekday0(ordinal_of(self)) + 1))
        ns["weekday"] = _meth("weekday", lambda ctx, self: B.wrap(cal.weekday0(ordinal_of(self))))
        ns["__sub__"] = _meth("__sub__", m_sub)
        for nm, op in (("__lt__", _ast.Lt()), ("__le__", _ast.LtE()), ("__gt__", _ast.Gt()), ("__ge__", _ast.GtE()),
                       ("__eq__", _ast.Eq()), ("__ne__", _ast.NotEq())):
            ns[nm] = _meth(nm, m_cmp(op))
        ns["toordinal"] = _meth("toordinal", lambda ctx, self: B.wrap(ordinal_of(self) + 719163))
    p_date.ns.update({"add": _meth("add", m_add), "subtract": _meth("subtract", m_subtract),
                      "start_of": _meth("start_of", m_start_of), "end_of": _meth("end_of", m_end_of),
                      "diff": _meth("diff", m_diff)})
    interval.ns.update({"in_weeks": _meth("in_weeks", m_in_weeks), "in_days": _meth("in_days", m_in_days),
                        "days": _prop(lambda ctx, self: self.fields["days"])})

    def pdate(ctx, y, m, d):
        return p_date.ns["__new_model__"](ctx, p_date, y, m, d)

    def monthrange(ctx, y, m):
        ctx.assumed_ext.add("calendar.monthrange(y, m)[1] = days in month")
        t = cal.tidx(zi(y), zi(m))
        first = cal.OM(t)
        return TupleVal([B.wrap(cal.weekday0(first)), B.wrap(cal.DIM(t))])

    parser_error = ClassVal("ParserError", None, [I.exc_classes["ValueError"]], {}, external="exc:ParserError")
    I.exc_classes["ParserError"] = parser_error
    def p_parse(ctx, text, exact=False, **kw):
        """pendulum.parse(text, exact=True) on the ISO shapes the period grammar uses (assumed contract, validated natively):
        YYYY -> 1 January; YYYY-MM -> first of the month; YYYY-MM-DD -> that date; YYYY-Www -> Monday of that ISO week;
        YYYY-Www-D -> that day of the week (weeks 00..53 and days 0..7 are accepted: week 00 is the week before week 01, day 0 the
        day before Monday); ParserError (a ValueError) when no such date exists or for any other text"""
        from . import fmtterms
        from .strings import Dec
        ctx.assumed_ext.add("pendulum.parse(text, exact=True) on YYYY / YYYY-MM / YYYY-MM-DD / YYYY-Www / YYYY-Www-D: the date named, "
                            "ParserError when it does not exist; ParserError on other shapes")
        if exact is not True:
            raise Unsupported("pendulum.parse without exact=True")
        segs = fmtterms.norm(I, ctx, text).parts
        # group: fields and literal characters -> shape string with F<k> placeholders
        vals, shape = [], ""
        i = 0
        while i < len(segs):
            sg = segs[i]
            if isinstance(sg, Dec):
                if sg.width is None:
                    raise Unsupported("pendulum.parse of a numeral of unknown width")
                vals.append(sg.e)
                shape += "F%d" % sg.width
                i += 1
            elif sg in "0123456789":
                j = i
                while j < len(segs) and isinstance(segs[j], str) and segs[j] in "0123456789":
                    j += 1
                vals.append(z3.IntVal(int("".join(segs[i:j]))))
                shape += "F%d" % (j - i)
                i = j
            else:
                shape += sg
                i += 1

        def fail():
            raise ExcVal(parser_error, ("Unable to parse string",))
        if shape == "F4":
            y, m, d = vals[0], z3.IntVal(1), z3.IntVal(1)
        elif shape == "F4-F2":
            y, m, d = vals[0], vals[1], z3.IntVal(1)
        elif shape == "F4-F2-F2":
            y, m, d = vals
        elif shape in ("F4-WF2", "F4-WF2-F1"):
            cy, w = vals[0], vals[1]
            wd = vals[2] if len(vals) == 3 else z3.IntVal(1)
            jan1 = cal.OM(12 * cy)
            jan4 = jan1 + 3
            monday1 = jan4 - cal.weekday0(jan4)
            o = monday1 + 7 * (w - 1) + (wd - 1)
            thursday = monday1 + 7 * (w - 1) + 3
            # pendulum is lenient below: week 00 is the week before week 01 and day 0 the day before Monday (validated natively)
            ok = z3.And(cy >= 1, cy <= 9999, w >= 0, wd >= 0, wd <= 7, thursday < cal.OM(12 * cy + 12), o >= cal.OM(12), o < cal.OM(12 * 10000))
            if not ctx.branch(ok):
                fail()
            return fresh_date(ctx, p_date, o, "parsed")
        else:
            fail()
        if not ctx.branch(cal.valid(y, m, d)):
            fail()
        return mk_date(p_date, B.wrap(smt.simp(y)), B.wrap(smt.simp(m)), B.wrap(smt.simp(d)))
    ext["pendulum"] = {"date": Builtin("pendulum.date", pdate), "Date": p_date, "parse": Builtin("pendulum.parse", p_parse),
                       "parsing": None, "Interval": interval}
    ext["pendulum.parsing.exceptions"] = {"ParserError": parser_error}
    ext["pendulum.parsing"] = {"exceptions": None}
    dt_datetime = cls("datetime", "datetime.datetime", [dt_date])

    def strptime(ctx, s, fmt):
        import datetime as _dt
        ctx.assumed_ext.add("datetime.strptime on concrete text (evaluated by the real library)")
        s2 = B.enum_str(s)
        if not isinstance(s2, str) or not isinstance(fmt, str):
            raise Unsupported("strptime on symbolic text")
        try:
            r = _dt.datetime.strptime(s2, fmt)
        except ValueError:
            raise I.raise_exc("ValueError")
        return mk_date(dt_datetime, r.year, r.month, r.day)
    dt_datetime.ns["strptime"] = Builtin("strptime", strptime)
    dt_datetime.ns["date"] = _meth("date", lambda ctx, self: mk_date(dt_date, *date_fields(self)))
    dt_date.ns["min"] = mk_date(dt_date, 1, 1, 1)
    dt_date.ns["fromtimestamp"] = Builtin("date.fromtimestamp", lambda ctx, ts: mk_date(dt_date, 1970, 1, 1) if ts == 0 else (_ for _ in ()).throw(Unsupported("fromtimestamp")))
    dt_date.ns["__str__"] = _meth("__str__", m_isoformat)
    p_date.ns["__str__"] = _meth("__str__", m_isoformat)
    ext["datetime"] = {"date": dt_date, "datetime": dt_datetime, "timedelta": Builtin("timedelta", None)}
    def isleap(ctx, y):
        ctx.assumed_ext.add("calendar.isleap / leapdays: proleptic Gregorian leap years")
        return B.wrap(cal.leap(zi(y)))

    def leapdays(ctx, y1, y2):
        ctx.assumed_ext.add("calendar.isleap / leapdays: proleptic Gregorian leap years")
        L = lambda y: y / 4 - y / 100 + y / 400
        a, b = zi(y1) - 1, zi(y2) - 1
        return B.wrap(L(b) - L(a))
    ext["calendar"] = {"monthrange": Builtin("calendar.monthrange", monthrange), "isleap": Builtin("calendar.isleap", isleap),
                       "leapdays": Builtin("calendar.leapdays", leapdays),
                       "mdays": ListVal([0, 31, 28, 31, 30, 31, 30, 31, 31, 30, 31, 30, 31])}


def iso_calendar(I, ctx, self):
    if all(isinstance(x, int) for x in date_fields(self)):
        from . import calmodel
        return TupleVal(list(calmodel.isocalendar(*date_fields(self))))
    y, m, d = (B.zint(x) for x in date_fields(self))
    o = cal.ordinal(y, m, d)
    wd0 = cal.weekday0(o)
    th = o - wd0 + 3
    iy = ctx.fresh_int("isoyear")
    wk = ctx.fresh_int("isoweek")
    jan1 = cal.OM(12 * iy)
    ctx.assume(z3.And(jan1 <= th, th < cal.OM(12 * iy + 12)))
    ctx.assume(wk == (th - jan1) / 7 + 1)
    ctx.assume(z3.And(iy >= y - 1, iy <= y + 1, wk >= 1, wk <= 53))
    # instances of the monotonicity of OM (lemma library): a Thursday within the years 1000..9999 has its ISO year there
    ctx.assume(z3.Implies(th >= cal.OM(12 * 1000), iy >= 1000))
    ctx.assume(z3.Implies(th < cal.OM(12 * 10000), iy <= 9999))
    return TupleVal([B.wrap(iy), B.wrap(wk), B.wrap(wd0 + 1)])


class _Auto:
    def __repr__(self):
        return "enum.auto()"


AUTO = _Auto()


def _prop(fn):
    from .values import PropertyVal
    return PropertyVal(Builtin("prop", fn))


def _meth(name, fn):
    return Builtin(name, fn, {"method": True})
