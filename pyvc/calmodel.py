"""Concrete calendar model (no z3): the closed forms behind the spec functions OM / DIM / weekday and the
assumed contracts of pendulum / datetime / calendar (DESIGN 2.7, 3.1). Validated against the real
libraries by /verif/pyvc/validate_ext.py on every run."""


def om(t):
    """days since 1970-01-01 of the first day of month index t = 12*year + month - 1 (Hinnant)."""
    y, m = t // 12, t % 12 + 1
    y2 = y - (1 if m <= 2 else 0)
    era = y2 // 400
    yoe = y2 - era * 400
    mp = m - 3 if m > 2 else m + 9
    doy = (153 * mp + 2) // 5
    doe = yoe * 365 + yoe // 4 - yoe // 100 + doy
    return era * 146097 + doe - 719468


def leap(y):
    return y % 4 == 0 and (y % 100 != 0 or y % 400 == 0)


def dim(t):
    y, m = t // 12, t % 12 + 1
    if m == 2:
        return 29 if leap(y) else 28
    return 30 if m in (4, 6, 9, 11) else 31


def ordinal(y, m, d):
    return om(12 * y + m - 1) + d - 1


def valid(y, m, d):
    return 1 <= y <= 9999 and 1 <= m <= 12 and 1 <= d <= dim(12 * y + m - 1)


def weekday0(o):
    """0 = Monday ... 6 = Sunday for an ordinal (1970-01-01 was a Thursday)."""
    return (o + 3) % 7


def civil(o):
    """inverse of ordinal (search-free closed form, Hinnant civil_from_days)."""
    z = o + 719468
    era = z // 146097
    doe = z - era * 146097
    yoe = (doe - doe // 1460 + doe // 36524 - doe // 146096) // 365
    y = yoe + era * 400
    doy = doe - (365 * yoe + yoe // 4 - yoe // 100)
    mp = (5 * doy + 2) // 153
    d = doy - (153 * mp + 2) // 5 + 1
    m = mp + 3 if mp < 10 else mp - 9
    return (y + (1 if m <= 2 else 0), m, d)


def add(y, m, d, years=0, months=0, weeks=0, days=0):
    """pendulum.Date.add: months/years first with end-of-month clipping, then days."""
    t = 12 * y + m - 1 + 12 * years + months
    d1 = min(d, dim(t))
    o = om(t) + d1 - 1 + 7 * weeks + days
    return civil(o)


def isocalendar(y, m, d):
    o = ordinal(y, m, d)
    wd0 = weekday0(o)
    thursday = o - wd0 + 3
    iy = civil(thursday)[0]
    week = (thursday - ordinal(iy, 1, 1)) // 7 + 1
    return (iy, week, wd0 + 1)


def start_of_week(y, m, d):
    o = ordinal(y, m, d)
    return civil(o - weekday0(o))


def end_of_week(y, m, d):
    o = ordinal(y, m, d)
    return civil(o + 6 - weekday0(o))


def end_of_month(y, m, d):
    return (y, m, dim(12 * y + m - 1))


def in_weeks(days):
    return abs(days) // 7


def parse_iso(text):
    """concrete form of the assumed contract of pendulum.parse(text, exact=True) used by pyvc (externals.p_parse):
    (y, m, d) for YYYY / YYYY-MM / YYYY-MM-DD / YYYY-Www / YYYY-Www-D naming an existing date, None (ParserError) otherwise"""
    import re
    m1 = re.fullmatch(r"(\d{4})(?:-(\d{2})(?:-(\d{2}))?)?", text)
    if m1:
        y = int(m1.group(1))
        mo = int(m1.group(2)) if m1.group(2) else 1
        d = int(m1.group(3)) if m1.group(3) else 1
        return (y, mo, d) if valid(y, mo, d) else None
    m2 = re.fullmatch(r"(\d{4})-W(\d{2})(?:-(\d))?", text)
    if m2:
        cy, w = int(m2.group(1)), int(m2.group(2))
        wd = int(m2.group(3)) if m2.group(3) else 1
        if not (1 <= cy <= 9999 and w >= 0 and 0 <= wd <= 7):
            return None
        jan4 = om(12 * cy) + 3
        monday1 = jan4 - weekday0(jan4)
        o = monday1 + 7 * (w - 1) + wd - 1
        if monday1 + 7 * (w - 1) + 3 >= om(12 * cy + 12) or o < om(12) or o >= om(12 * 10000):
            return None
        return civil(o)
    return None
