"""Contracts, verification tasks and obligation discharge (DESIGN 2.4, 2.8)."""
from __future__ import annotations

import hashlib
import time
import traceback

import z3

from . import smt
from .ctx import Ctx, PathEnd, explore
from .values import ExcVal, FuncVal, PropertyVal, PyvcError, ClassMethodVal, StaticMethodVal, CachedFunc, DispatchVal, Unsupported
from .world import function_source_hash


import os
CROSS_CHECK = os.environ.get("PYVC_CROSS") == "1"


class LoopSpec:
    """Loop invariant keyed by loop ordinal. invariant(ctx, I, vars) -> [(name, z3 Bool)];
    havoc(ctx, I, vars) replaces the variables the loop modifies by fresh values."""

    def __init__(self, invariant, havoc, step=None):
        self.invariant = invariant
        self.havoc = havoc
        self.step = step      # ghost update at the end of one iteration (e.g. advance a ghost index)


class Contract:
    name = None          # qualified name: module.Class.function
    prop = ()            # property ids served
    cases = (None,)      # finite case split done outside the solver (e.g. the six date units)
    floor = 1            # minimum number of obligations per case (vacuity guard)
    inline = ()          # callee qualified names (or prefix*) verified by inlining, listed in evidence
    loops = {}           # ordinal -> LoopSpec
    loop_heads = {}      # ordinal -> header text of the loop the invariant belongs to (binding by header, not by position)
    top_level = False    # postcondition taken from the property statement
    descr = ""

    # ---- to be provided ---------------------------------------------------
    def setup(self, I, ctx, case):
        """build symbolic arguments: returns dict param -> value; assumes the precondition on ctx."""
        raise NotImplementedError

    def requires(self, I, ctx, a):
        """call-site obligations [(name, formula)]"""
        return []

    def snapshot(self, I, ctx, a):
        return None

    def outcomes(self, I, ctx, a, old):
        """call site: fresh outcome skeleton ('return', value) / ('raise', ExcVal); may fork."""
        raise NotImplementedError

    def post(self, I, ctx, a, out, old):
        """[(name, formula)] relating arguments, old state and outcome"""
        raise NotImplementedError

    def call_descriptor(self, I, case, a, ev):
        """JSON-able description of the call for native replay; ev evaluates z3 terms in the model."""
        return None

    # ---- machinery ---------------------------------------------------------
    def target(self, I):
        v = I.resolve_qualified(self.name)
        kind = "function"
        if isinstance(v, PropertyVal):
            v, kind = v.fget, "property"
        elif isinstance(v, ClassMethodVal):
            v, kind = v.func, "classmethod"
        elif isinstance(v, StaticMethodVal):
            v, kind = v.func, "staticmethod"
        elif isinstance(v, CachedFunc):
            v, kind = v.func, "cached"
        elif isinstance(v, DispatchVal):
            v, kind = v.default, "dispatch"
        if not isinstance(v, FuncVal):
            raise PyvcError(f"contract target is not a function: {self.name}")
        return v, kind

    def params(self, f):
        ar = f.node.args
        return [p.arg for p in ar.posonlyargs + ar.args] + [p.arg for p in ar.kwonlyargs]

    def apply(self, I, ctx, f, args, kwargs):
        """modular call: check requires, assume post on a fresh outcome."""
        env = I.bind_args(ctx, f, args, kwargs)
        a = dict(env.vars)
        ctx.used_contracts.add(self.name)
        for name, fm in self.requires(I, ctx, a):
            ctx.oblige(f"call:{self.name.split('.', 2)[-1]}.requires.{name}", fm, kind="precondition")
        old = self.snapshot(I, ctx, a)
        out = self.outcomes(I, ctx, a, old)
        for name, fm in self.post(I, ctx, a, out, old):
            ctx.assume(fm)
        ctx.ghost.setdefault("callee_outcomes", []).append((self.name, a, out))
        if out[0] == "raise":
            raise out[1]
        return out[1]


class Result:
    def __init__(self):
        self.obligations = []     # dicts
        self.paths = 0
        self.errors = []
        self.functions = []
        self.inlined = set()
        self.assumed_ext = set()
        self.used_contracts = set()
        self.covers = []


def _oblig_key(o):
    h = hashlib.sha256()
    for x in o.hyps:
        h.update(x.sexpr().encode())
    h.update(b"|-")
    h.update(o.goal.sexpr().encode())
    return (o.name, h.hexdigest())


def run_contract_case(I, contract, case, timeout_ms=None, registry=None):
    """Explore all paths of the function under `contract` for `case`, discharge obligations.
    Returns a picklable dict."""
    t0 = time.time()
    res = {"contract": contract.name, "case": repr(case), "obligations": [], "paths": 0, "error": None,
           "inlined": [], "assumed_ext": [], "used_contracts": [], "cover": None, "outcomes": {}}
    try:
        f, kind = contract.target(I)
        res["source_sha256"] = function_source_hash(I.world, f.module.name, f.node)
        res["file"] = f.module.path
        res["lineno"] = f.node.lineno
        I.under_test = contract.name
        contract.current_case = case          # loop specifications / local contracts may depend on the case
        why_not = contract.applicable(I, case, f) if hasattr(contract, "applicable") else None
        if why_not:
            # a case written for one shape of the code (e.g. "the frames are selected by a comprehension") does not apply to another
            # shape: nothing is claimed for it (listed in the evidence); the contract's other cases still run
            res["skipped"] = why_not
            res["cover"] = "sat"
            res["wall"] = round(time.time() - t0, 3)
            return res
        I.inline = set(contract.inline)
        if hasattr(contract, "local_contracts"):
            I.contracts = dict(I.contracts)
            I.contracts.update(contract.local_contracts())
        I.loop_specs = {contract.name: contract.loops} if contract.loops else {}
        I.loop_heads = {contract.name: dict(getattr(contract, "loop_heads", {}) or {})}
        I.ghost_before = dict(getattr(contract, "ghost_before", {}) or {})
        I.ghost_masked_assign = getattr(contract, "ghost_masked_assign", None)
        seen = {}
        inputs_holder = {}

        def run(ctx):
            try:
                a = contract.setup(I, ctx, case)
            except (ExcVal, Unsupported, Exception) as e_setup:
                from .ctx import PathEnd
                if isinstance(e_setup, PathEnd):
                    raise
                # a set-up that runs real code (history cases) may meet a construct it cannot execute on a path the quick feasibility
                # probe (150 ms, unknown = feasible) left alive although it is infeasible: decide feasibility with a real budget first
                s8 = z3.Solver()
                s8.set("timeout", 10000)
                for h in list(ctx.hyps()) + smt.theory_facts(list(ctx.hyps())):
                    s8.add(h)
                if s8.check() == z3.unsat:
                    raise PathEnd()
                raise
            inputs_holder["a"] = a
            if res["cover"] != "sat":
                # (checked on every path until one is found satisfiable: the set-up itself may branch, and a branch whose
                # feasibility the solver left open can turn out infeasible)
                # vacuity guard: the precondition must be satisfiable; budgets escalate so that a busy machine does
                # not turn the guard into a checker error
                r0 = z3.unknown
                for budget in (5000, 30000, 120000):
                    s = z3.Solver()
                    s.set("timeout", budget)
                    for h in ctx.hyps():
                        s.add(h)
                    for h in smt.theory_facts(ctx.hyps()):
                        s.add(h)
                    r0 = s.check()
                    if r0 == z3.unknown:
                        # quantified axioms (injectivity, well-formedness) make sat answers unknown: check the
                        # quantifier-free part
                        s = z3.Solver()
                        s.set("timeout", budget)
                        qf = [h for h in ctx.hyps() if not _has_quantifier(h)]
                        for h in qf + smt.theory_facts(qf):
                            s.add(h)
                        r0 = s.check()
                        res["cover_note"] = "sat checked on the quantifier-free part of the precondition"
                    if r0 != z3.unknown:
                        break
                res["cover"] = str(r0)
            old = contract.snapshot(I, ctx, a)
            params = contract.params(f)
            kwargs = {p: a[p] for p in params if p in a}
            try:
                r = I.inline_call(ctx, f, [], kwargs)
                from . import builtins_ as _B
                if isinstance(r, _B.OptVal):
                    # a result that is None under a symbolic condition (e.g. `return table.get(key)` handed on as it is): the
                    # postcondition sees the two cases as two paths, as it does when the code tests the value itself
                    isn = smt.simp(r.is_none) if not isinstance(r.is_none, bool) else z3.BoolVal(r.is_none)
                    r = None if ctx.branch(isn) else r.val
                out = ("return", r)
            except ExcVal as e:
                out = ("raise", e)
            except Unsupported:
                # an unsupported construct met on a path that is in fact infeasible (the quick feasibility check had
                # answered unknown) is not an error: decide feasibility with a real budget first
                s9 = z3.Solver()
                s9.set("timeout", 10000)
                for h in list(ctx.hyps()) + smt.theory_facts(list(ctx.hyps())):
                    s9.add(h)
                if s9.check() == z3.unsat:
                    from .ctx import PathEnd
                    raise PathEnd()
                raise
            ctx.where = f"{f.module.name}:{f.node.lineno}"
            key = out[0] if out[0] == "return" else "raise " + out[1].cls.name
            res["outcomes"][key] = res["outcomes"].get(key, 0) + 1
            try:
                clauses = contract.post(I, ctx, a, out, old)
            except Unsupported:
                s9 = z3.Solver()
                s9.set("timeout", 10000)
                for h in list(ctx.hyps()) + smt.theory_facts(list(ctx.hyps())):
                    s9.add(h)
                if s9.check() == z3.unsat:
                    from .ctx import PathEnd
                    raise PathEnd()
                raise
            for name, fm in clauses:
                ctx.oblige(f"post.{name}", fm, kind="post")
            return out

        for ctx, out in explore(run):
            res["paths"] += 1
            res["inlined"] = sorted(set(res["inlined"]) | ctx.inlined)
            res["assumed_ext"] = sorted(set(res["assumed_ext"]) | ctx.assumed_ext)
            res["used_contracts"] = sorted(set(res["used_contracts"]) | ctx.used_contracts)
            for o in ctx.obligations:
                k = _oblig_key(o)
                if k in seen:
                    continue
                seen[k] = True
                verdict, backend, model, dt = smt.prove(o.hyps, o.goal, timeout_ms=timeout_ms)
                rec = {"name": o.name, "where": o.where, "kind": o.kind, "verdict": verdict, "backend": backend,
                       "time": round(dt, 4), "contract": contract.name, "case": repr(case)}
                if ctx.bounded:
                    # bounded stand-in (a loop without invariant was unrolled): nothing on this path counts as proved
                    rec["bounded"] = "; ".join(sorted(set(ctx.bounded)))
                    if verdict == "proved":
                        rec["verdict"] = "unknown"
                        rec["backend"] = backend + "+bounded-unrolling(not a proof)"
                if CROSS_CHECK and verdict in ("proved", "failed") and backend == "z3":
                    c5 = smt.cross_check_cvc5(o.hyps, o.goal)
                    rec["cvc5_cross_check"] = c5
                    if (c5 == "sat" and verdict == "proved") or (c5 == "unsat" and verdict == "failed"):
                        rec["verdict"] = verdict = "unknown"
                        rec["backend"] = "z3-vs-cvc5-CONTRADICTION"
                if verdict == "failed" and hasattr(contract, "small_model") and inputs_holder.get("a") is not None:
                    # prefer a small counterexample for the native replay
                    try:
                        s3 = z3.Solver()
                        s3.set("timeout", 5000)
                        for h in list(o.hyps) + smt.theory_facts(list(o.hyps) + [o.goal]):
                            s3.add(h)
                        s3.add(z3.Not(o.goal))
                        for extra in contract.small_model(I, case, inputs_holder["a"]):
                            s3.add(extra)
                        if s3.check() == z3.sat:
                            model = s3.model()
                    except Exception:
                        pass
                if verdict != "proved":
                    rec["goal"] = o.goal.sexpr()[:2000]
                    rec["smt2"] = smt.to_smt2(list(o.hyps) + smt.theory_facts(list(o.hyps) + [o.goal]), o.goal)
                    if model is not None:
                        rec["model"] = model_summary(model)
                        try:
                            def ev(t, model=model):
                                return model_eval(model, t)
                            a = inputs_holder.get("a")
                            rec["call"] = contract.call_descriptor(I, case, a, ev)
                        except Exception as e:  # replay construction must not turn into a verdict
                            rec["call_error"] = f"{type(e).__name__}: {e}"
                elif len(res["obligations"]) < 3:
                    rec["smt2_sample"] = smt.to_smt2(list(o.hyps), o.goal)[:1500]
                res["obligations"].append(rec)
    except PyvcError as e:
        res["error"] = f"{type(e).__name__}: {e}"
    except Exception as e:  # checker crash
        res["error"] = "CRASH " + "".join(traceback.format_exception(type(e), e, e.__traceback__))[-3000:]
    res["wall"] = round(time.time() - t0, 3)
    return res


def _has_quantifier(e):
    seen = set()
    work = [e]
    while work:
        x = work.pop()
        if x.get_id() in seen:
            continue
        seen.add(x.get_id())
        if z3.is_quantifier(x):
            return True
        work.extend(x.children())
    return False


def model_eval(model, t):
    v = model.eval(t, model_completion=True)
    if z3.is_int_value(v):
        return v.as_long()
    if z3.is_true(v):
        return True
    if z3.is_false(v):
        return False
    if z3.is_rational_value(v):
        return [v.numerator_as_long(), v.denominator_as_long()]
    return str(v)


def model_summary(model):
    out = {}
    for d in model.decls():
        if d.arity() == 0:
            out[d.name()] = str(model[d])
    return out
