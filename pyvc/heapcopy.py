"""copy.copy / copy.deepcopy on the modelled heap (assumed contract: fresh, structurally equal, disjoint)."""
from .values import DictVal, ListVal, Obj, SetVal, SymList, TupleVal


def shallow(I, ctx, v):
    ctx.assumed_ext.add("copy.copy: fresh container, same elements")
    if isinstance(v, ListVal):
        return ListVal(v.items)
    if isinstance(v, SymList):
        return SymList(v.seq)
    if isinstance(v, DictVal):
        d = DictVal()
        d.items.update(v.items)
        d.keyvals.update(v.keyvals)
        return d
    if isinstance(v, SetVal):
        s = SetVal()
        s.items.update(v.items)
        return s
    if isinstance(v, Obj):
        m, _ = v.cls.lookup("__copy__")
        if m is not None:
            return I.call(ctx, m, [v], {})
        return Obj(v.cls, dict(v.fields))
    return v


def deep(I, ctx, v, memo=None):
    ctx.assumed_ext.add("copy.deepcopy: fresh, structurally equal, disjoint from the original")
    memo = {} if memo is None else memo
    if id(v) in memo:
        return memo[id(v)]
    if isinstance(v, ListVal):
        r = ListVal()
        memo[id(v)] = r
        r.items = [deep(I, ctx, x, memo) for x in v.items]
        return r
    if isinstance(v, SymList):
        r = SymList(v.seq)          # elements of closure lists are immutable scalars
        memo[id(v)] = r
        return r
    from .pybuiltins import ObjDictView
    if isinstance(v, ObjDictView):
        # deepcopy(obj.__dict__): a fresh dict of deep copies of the attributes
        from .interp import hkey
        d = DictVal()
        memo[id(v)] = d
        for k, x in v.obj.fields.items():
            d.items[hkey(k)] = deep(I, ctx, x, memo)
            d.keyvals[hkey(k)] = k
        return d
    if isinstance(v, DictVal):
        d = DictVal()
        memo[id(v)] = d
        for k, x in v.items.items():
            d.items[k] = deep(I, ctx, x, memo)
            d.keyvals[k] = v.keyvals[k]
        return d
    if isinstance(v, SetVal):
        s = SetVal()
        s.items.update(v.items)
        return s
    if isinstance(v, TupleVal):
        return TupleVal([deep(I, ctx, x, memo) for x in v.items], v.cls)
    if isinstance(v, Obj):
        m, _ = v.cls.lookup("__deepcopy__")
        if m is not None:
            return I.call(ctx, m, [v, None], {})
        r = Obj(v.cls, {})
        memo[id(v)] = r
        for k, x in v.fields.items():
            r.fields[k] = deep(I, ctx, x, memo)
        return r
    return v
