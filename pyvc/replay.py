"""Replay of counterexamples against the real code (DESIGN 2.8).
stage 1: /venv/bin/python native/harness.py rebuilds the inputs and calls the real function;
stage 2: the contract's postcondition is evaluated on the concrete input/outcome with every spec
         definition revealed."""
from __future__ import annotations

import json
import os
import subprocess

import z3

from . import smt
from . import theory_cal as cal
from .ctx import Ctx, PathEnd
from .values import ExcVal, ListVal, TupleVal, ClassVal

VERIF = os.path.dirname(os.path.dirname(os.path.abspath(__file__)))
REPO = os.environ.get("PYVC_REPO", "/repo")
VENV_PY = "/venv/bin/python"


def reveal(e):
    v = z3.Var(0, z3.IntSort())
    v1, v2 = z3.Var(1, z3.IntSort()), z3.Var(2, z3.IntSort())
    e = z3.substitute_funs(e, (cal.ORD3, cal.ordinal_def(v, v1, v2)))
    return z3.substitute_funs(e, (cal.OM, cal.om_closed(v)), (cal.DIM, cal.dimf(v)))


def run_native(path, timeout=120):
    env = dict(os.environ, PYTHONPATH=REPO + os.pathsep + os.environ.get("PYTHONPATH", ""), PYTHONWARNINGS="ignore")
    p = subprocess.run([VENV_PY, os.path.join(VERIF, "native", "harness.py"), path], capture_output=True, text=True,
                       timeout=timeout, env=env, cwd=REPO)
    lines = [l for l in p.stdout.strip().splitlines() if l.strip()]
    if p.returncode != 0 or not lines:
        return {"kind": "harness-error", "stderr": p.stderr[-2000:], "stdout": p.stdout[-500:]}
    try:
        return json.loads(lines[-1])
    except json.JSONDecodeError:
        return {"kind": "harness-error", "stdout": p.stdout[-500:]}


def decode_value(I, v):
    from contracts import common as K
    if isinstance(v, dict) and "t" in v:
        t = v["t"]
        if t == "Instant":
            return K.mk_instant(I, *v["v"])
        if t == "Period":
            return K.mk_period(I, v["unit"], K.mk_instant(I, *v["start"]), v["size"])
        if t == "DateUnit":
            return K.dateunit(I, v["v"])
        if t == "date":
            return I.mk_date(*v["v"])
        if t == "tuple":
            return TupleVal([decode_value(I, x) for x in v["v"]])
        if t == "list":
            return ListVal([decode_value(I, x) for x in v["v"]])
        if t == "float":
            return v["v"]
        return v
    return v


def decode_outcome(I, out):
    if out["kind"] == "return":
        return ("return", decode_value(I, out["value"]))
    if out["kind"] == "raise":
        for n in out.get("mro", [out["exc"]]):
            if n in I.exc_classes:
                return ("raise", ExcVal(I.exc_classes[n]))
        return ("raise", ExcVal(I.exc_classes["Exception"]))
    return None


def evaluate_post(I, contract, case, call, native_out):
    """returns (verdict, details): verdict in 'violates' / 'satisfies' / 'undecided'"""
    f, kind = contract.target(I)
    params = contract.params(f)
    a = {}
    names = list(params)
    if "self" in call and names and names[0] in ("self", "cls"):
        a[names[0]] = decode_value(I, call["self"])
        names = names[1:]
    for n, v in zip(names, call.get("args", [])):
        a[n] = decode_value(I, v)
    for n, v in call.get("kwargs", {}).items():
        a[n] = decode_value(I, v)
    if hasattr(contract, "complete_args"):
        a = contract.complete_args(I, case, a)
    else:
        # defaults for omitted trailing parameters
        env = I.bind_args(Ctx(), f, [a[p] for p in params if p in a], {})
        a = dict(env.vars)
    out = decode_outcome(I, native_out)
    if out is None:
        return "undecided", "native harness error: " + json.dumps(native_out)[:500]
    ctx = Ctx()
    try:
        old = contract.snapshot(I, ctx, a)
        clauses = contract.post(I, ctx, a, out, old)
    except PathEnd:
        return "undecided", "post not evaluable on the native outcome"
    failed = []
    for name, fm in clauses:
        if isinstance(fm, bool):
            fm = z3.BoolVal(fm)
        s = z3.Solver()
        s.set("timeout", 60000)
        for h in ctx.hyps():
            s.add(reveal(h))
        s.add(z3.Not(reveal(fm)))
        r = s.check()
        if r == z3.sat:
            failed.append(name)
        elif r != z3.unsat:
            return "undecided", f"clause {name}: solver {r} on concrete replay"
    if failed:
        return "violates", "real code breaks clause(s): " + ", ".join(failed)
    return "satisfies", "real code satisfies the postcondition on this input"


def _find_decls(fs):
    found = {}
    seen = set()

    def walk(e):
        if e.get_id() in seen:
            return
        seen.add(e.get_id())
        if z3.is_app(e):
            d = e.decl()
            if d.name() in ("OM", "DIM", "ORD3") and d.kind() == z3.Z3_OP_UNINTERPRETED:
                found[d.name()] = d
            for c in e.children():
                walk(c)
        elif z3.is_quantifier(e):
            walk(e.body())
    for f in fs:
        walk(f)
    return found


def resolve_with_definitions(smt2_text, timeout_ms=120000):
    """re-solve a failed VC with the calendar definitions revealed (counterexample refinement)."""
    fs = list(z3.parse_smt2_string(smt2_text))
    d = _find_decls(fs)
    v0, v1, v2 = (z3.Var(i, z3.IntSort()) for i in range(3))
    OMf, DIMf = d.get("OM", cal.OM), d.get("DIM", cal.DIM)

    def rev(e):
        if "ORD3" in d:
            e = z3.substitute_funs(e, (d["ORD3"], OMf(12 * v0 + v1 - 1) + v2 - 1))
        subs = []
        if "OM" in d:
            subs.append((d["OM"], cal.om_closed(v0)))
        if "DIM" in d:
            subs.append((d["DIM"], cal.dimf(v0)))
        return z3.substitute_funs(e, *subs) if subs else e
    s = z3.Solver()
    s.set("timeout", timeout_ms)
    for f in fs:
        s.add(rev(f))
    r = s.check()
    return {"unsat": "proved", "sat": "failed"}.get(str(r), "unknown"), (s.model() if r == z3.sat else None)
