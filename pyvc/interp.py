"""AST path executor over the real sources (DESIGN 2.1-2.4)."""
from __future__ import annotations

import ast
import os

import z3

from . import smt
from .ctx import Ctx, PathEnd
from .values import (ELLIPSIS, NOT_IMPLEMENTED, BoundMethod, Builtin, CachedFunc, ClassMethodVal, ClassVal,
                     DictVal, DispatchVal, EnumMember, ExcVal, FmtStr, FuncVal, IsoStr, ListVal, ModuleVal, Obj,
                     Opaque, PropertyVal, PyvcError, SeqVal, SetVal, StaticMethodVal, Sym, SymList, TupleVal,
                     Unsupported)
from .world import World


class ReturnSig(Exception):
    def __init__(self, value):
        self.value = value


class BreakSig(Exception):
    pass


class ContinueSig(Exception):
    pass


class Env:
    __slots__ = ("vars", "parent", "module", "func", "_defining_class", "globals_decl")

    def __init__(self, module, parent=None, func=None):
        self._defining_class = None
        self.vars = {}
        self.parent = parent
        self.module = module
        self.func = func
        self.globals_decl = set()


_MISSING = object()

DROPPED_CALL_PREFIXES = ("log.", "logging.", "logger.")


def hkey(v):
    """Hashable canonical key of a concrete value (dict/set keys)."""
    if isinstance(v, (str, int, float, bool, type(None))):
        # python: True == 1 as keys; keep type separation only for str
        return ("c", v)
    if isinstance(v, EnumMember):
        if isinstance(v.value, str) and v.cls.ns.get("__strenum__"):
            return ("c", v.value)
        return ("e", id(v.cls), v.name)
    if isinstance(v, TupleVal):
        return ("t",) + tuple(hkey(x) for x in v.items)
    if isinstance(v, ClassVal) and class_hashed_by_name(v):
        return ("class-by-name", v.name)
    if isinstance(v, (Obj, ClassVal, FuncVal, Builtin, ModuleVal)):
        return ("o", id(v))
    if isinstance(v, Sym):
        s = smt.simp(v.e)
        if z3.is_int_value(s):
            return ("c", s.as_long())
        if z3.is_true(s) or z3.is_false(s):
            return ("c", z3.is_true(s))
        raise Unsupported(f"symbolic value used as concrete dict key: {v}")
    if isinstance(v, IsoStr):
        k = smt.simp(v.key) if not isinstance(v.key, int) else v.key
        if isinstance(k, int) or z3.is_int_value(k):
            return ("iso", k if isinstance(k, int) else k.as_long())
        raise Unsupported(f"symbolic ISO string used as concrete dict key")
    if isinstance(v, FmtStr) and _CURRENT.get("I") is not None:
        forced = force_str(_CURRENT["I"], _CURRENT["ctx"], v)
        if isinstance(forced, str):
            return ("c", forced)
    raise Unsupported(f"unhashable / unsupported dict key {v!r}")


def class_hashed_by_name(c):
    """a class whose metaclass (its own or an inherited one) defines `__hash__` over `cls.__name__` (and `__eq__` over the hashes):
    as a dict / set key such a class is its name. A metaclass `__hash__` of another form is not modelled."""
    for k in c.mro():
        m = getattr(k, "metaclass", None)
        if isinstance(m, ClassVal):
            f, _ = m.lookup("__hash__")
            node = getattr(f, "node", None)
            if node is None:
                continue
            body = [st for st in node.body if not (isinstance(st, ast.Expr) and isinstance(st.value, ast.Constant))]
            if len(body) == 1 and isinstance(body[0], ast.Return) and "__name__" in ast.unparse(body[0]):
                return True
            raise Unsupported(f"metaclass {m.name}.__hash__ of a form that is not modelled")
    return False


_CURRENT = {}


def force_str(I, ctx, v):
    """evaluate the lazy parts of a format string (user-defined __str__ is run now because the text is needed)"""
    if not isinstance(v, FmtStr):
        return v
    out = []
    for p in v.parts:
        if isinstance(p, LazyStr):
            p = I.to_str(ctx, p.val, p.spec, p.conv)
            if isinstance(p, FmtStr):
                p = force_str(I, ctx, p)
        if isinstance(p, FmtStr):
            out.extend(p.parts)
        else:
            out.append(p)
    if all(isinstance(p, str) for p in out):
        return "".join(out)
    return FmtStr(out)


def loop_head(n):
    """normalised header text of a loop statement"""
    if isinstance(n, ast.For):
        return f"for {ast.unparse(n.target)} in {ast.unparse(n.iter)}"
    return "while " + ast.unparse(n.test)


class Interp:
    def __init__(self, world=None):
        self.world = world or World()
        self.world.interp = self
        self.contracts = {}        # qualified name -> Contract (modular calls)
        self.inline = set()        # qualified names allowed to be inlined
        self.inline_all = False
        self.loop_specs = {}       # qualified name -> {ordinal: LoopSpec}
        self.under_test = None
        self.ext = {}              # external module models: name -> dict attr -> value
        self.builtins = {}
        self.exc_classes = {}
        self.overrides = {}        # (module name, global name) -> model value (ghost-modelled module state)
        self.always_inline = set() # tiny accessors verified by inlining everywhere (DESIGN 2.4 a)
        self.hooks = {}            # qualified name -> python callable replacing the function (ghost models)
        self.max_depth = 60
        self.strict_inline = os.environ.get("PYVC_STRICT_INLINE") == "1"
        from . import builtins_ as B
        B.install(self)

    # ------------------------------------------------------------------
    # module loading
    # ------------------------------------------------------------------
    def load_module_body(self, m, tree):
        env = Env(m)
        m.ns["__name__"] = m.name
        for st in tree.body:
            self._load_top(m, env, st)

    def _load_top(self, m, env, st):
        if isinstance(st, ast.Expr):
            return
        if isinstance(st, ast.Import):
            for a in st.names:
                name = a.name
                if a.asname:
                    m.lazy[a.asname] = (lambda n=name: self.world.get_module(n))
                else:
                    top = name.split(".")[0]
                    m.lazy[top] = (lambda n=top: self.world.get_module(n))
            return
        if isinstance(st, ast.ImportFrom):
            if st.module == "__future__":
                return
            src = self.world.resolve_relative(m, st.level, st.module or "")
            for a in st.names:
                if a.name == "*":
                    continue
                m.lazy[a.asname or a.name] = (lambda s=src, n=a.name: self.import_from(s, n))
            return
        if isinstance(st, (ast.FunctionDef, ast.ClassDef)):
            # decorators / bases may need other modules: evaluate lazily
            if isinstance(st, ast.FunctionDef):
                for d in st.decorator_list:
                    if isinstance(d, ast.Attribute) and d.attr == "register" and isinstance(d.value, ast.Name):
                        # singledispatch overload: executed together with the dispatcher it registers on
                        m.registrations.setdefault(d.value.id, []).append(st)
                        return
            m.lazy[st.name] = (lambda s=st: self._exec_def(m, env, s))
            return
        if isinstance(st, (ast.Assign, ast.AnnAssign)):
            targets = st.targets if isinstance(st, ast.Assign) else [st.target]
            if isinstance(st, ast.AnnAssign) and st.value is None:
                return
            names = []
            for t in targets:
                for n in ast.walk(t):
                    if isinstance(n, ast.Name):
                        names.append(n.id)
            for n in names:
                m.lazy[n] = (lambda s=st, nn=n: self._exec_lazy_assign(m, env, s, nn))
            return
        if isinstance(st, ast.If):
            # TYPE_CHECKING and similar: evaluate test concretely
            try:
                t = self.eval(Ctx(), env, st.test)
            except PyvcError:
                t = False
            body = st.body if t is True else st.orelse
            for s in body:
                self._load_top(m, env, s)
            return
        if isinstance(st, ast.Try):
            for s in st.body:
                self._load_top(m, env, s)
            return
        # anything else at module level is ignored (del, for ...): recorded
        return

    def _exec_def(self, m, env, st):
        ctx = Ctx()
        self.exec_stmt(ctx, env, st)
        v = env.vars.pop(st.name)
        m.ns[st.name] = v
        m.lazy.pop(st.name, None)
        for reg in m.registrations.get(st.name, []):
            self.exec_stmt(ctx, env, reg)
            env.vars.pop(reg.name, None)
        return v

    def _exec_lazy_assign(self, m, env, st, name):
        ctx = Ctx()
        self.exec_stmt(ctx, env, st)
        for k, v in list(env.vars.items()):
            m.ns[k] = v
            m.lazy.pop(k, None)
        env.vars.clear()
        return m.ns[name]

    def import_from(self, src, name):
        mod = self.world.get_module(src)
        if mod.external:
            return self.module_getattr(mod, name)
        sub = f"{src}.{name}"
        is_sub = self.world.is_repo_module(sub) and self.world.module_path(sub)[0]
        if is_sub and name in mod.loading:
            return self.world.get_module(sub)     # `from . import sub` inside the package itself
        v = self.module_lookup(mod, name)
        if v is not _MISSING:
            return v
        if is_sub:
            return self.world.get_module(sub)
        raise PyvcError(f"cannot import {name} from {src}")

    def module_lookup(self, mod, name):
        ov = self.overrides.get((mod.name, name))
        if ov is not None:
            return ov
        if name in mod.ns:
            return mod.ns[name]
        if name in mod.lazy:
            th = mod.lazy[name]
            if name in mod.loading:
                raise PyvcError(f"circular lazy definition of {mod.name}.{name}")
            mod.loading.add(name)
            try:
                v = th()
            finally:
                mod.loading.discard(name)
            mod.ns[name] = v
            mod.lazy.pop(name, None)
            return v
        return _MISSING

    def module_getattr(self, mod, name):
        if mod.external is not None:
            table = self.ext.get(mod.external)
            if table is not None and table.get(name) is not None:
                return table[name]
            # submodule of external (e.g. os.path)
            sub = f"{mod.external}.{name}"
            if sub in self.ext:
                return self.world.get_external(sub)
            return Builtin(f"{mod.external}.{name}", None)  # unmodelled: error on use
        v = self.module_lookup(mod, name)
        if v is _MISSING:
            sub = f"{mod.name}.{name}"
            if self.world.module_path(sub)[0]:
                return self.world.get_module(sub)
            raise PyvcError(f"module {mod.name} has no attribute {name}")
        return v

    # ------------------------------------------------------------------
    # names
    # ------------------------------------------------------------------
    def lookup(self, env, name):
        e = env
        while e is not None:
            if name in e.vars and name not in e.globals_decl:
                return e.vars[name]
            e = e.parent
        v = self.module_lookup(env.module, name)
        if v is not _MISSING:
            return v
        if name in self.builtins:
            return self.builtins[name]
        raise PyvcError(f"name not found: {name} (module {env.module.name})")

    def resolve_qualified(self, qual):
        """'pkg.mod.Class.func' -> value."""
        parts = qual.split(".")
        for i in range(len(parts), 0, -1):
            modname = ".".join(parts[:i])
            if self.world.is_repo_module(modname) and self.world.module_path(modname)[0]:
                v = self.world.get_module(modname)
                for p in parts[i:]:
                    if isinstance(v, ModuleVal):
                        v = self.module_getattr(v, p)
                    elif isinstance(v, ClassVal):
                        v, _ = v.lookup(p)
                        if v is None:
                            raise PyvcError(f"cannot resolve {qual}")
                    else:
                        raise PyvcError(f"cannot resolve {qual}")
                return v
        raise PyvcError(f"cannot resolve {qual}")

    # ------------------------------------------------------------------
    # statements
    # ------------------------------------------------------------------
    def exec_block(self, ctx, env, body):
        for st in body:
            self.exec_stmt(ctx, env, st)

    def exec_stmt(self, ctx, env, st):
        _CURRENT["I"], _CURRENT["ctx"] = self, ctx
        ctx.where = f"{env.module.name}:{getattr(st, 'lineno', 0)}"
        meth = getattr(self, "s_" + st.__class__.__name__, None)
        if meth is None:
            raise Unsupported(f"UNSUPPORTED {ctx.where} {st.__class__.__name__}")
        hooks = getattr(self, "ghost_before", None)
        if hooks and isinstance(st, (ast.Assign, ast.AugAssign, ast.Expr, ast.Return)) and getattr(env, "func", None) is not None:
            # ghost statements of the contract under verification (lemma applications), keyed by the text of the statement
            # they stand before; they can only add obligations and facts, never change program state
            qn = getattr(env.func, "qualname", None) or ""
            for (fname, prefix), fn in hooks.items():
                if qn.endswith(fname) or fname == "*":
                    try:
                        txt = ast.unparse(st)
                    except Exception:
                        txt = ""
                    if txt.startswith(prefix):
                        fn(ctx, self, env)
        return meth(ctx, env, st)

    def s_Pass(self, ctx, env, st):
        return

    def s_Global(self, ctx, env, st):
        env.globals_decl.update(st.names)

    def s_Nonlocal(self, ctx, env, st):
        return

    def s_Expr(self, ctx, env, st):
        v = st.value
        if isinstance(v, ast.Constant):
            return
        if isinstance(v, ast.Call):
            try:
                txt = ast.unparse(v.func)
            except Exception:
                txt = ""
            if txt.startswith(DROPPED_CALL_PREFIXES):
                return
        self.eval(ctx, env, v)

    def s_Assign(self, ctx, env, st):
        val = self.eval(ctx, env, st.value)
        for t in st.targets:
            self.assign(ctx, env, t, val)

    def s_AnnAssign(self, ctx, env, st):
        if st.value is None:
            return
        val = self.eval(ctx, env, st.value)
        self.assign(ctx, env, st.target, val)

    def s_AugAssign(self, ctx, env, st):
        t = st.target
        if isinstance(t, ast.Name):
            cur = self.lookup(env, t.id)
            new = self.inplace_binop(ctx, st.op, cur, self.eval(ctx, env, st.value))
            self.assign(ctx, env, t, new)
        elif isinstance(t, ast.Attribute):
            o = self.eval(ctx, env, t.value)
            cur = self.getattr(ctx, o, t.attr)
            new = self.inplace_binop(ctx, st.op, cur, self.eval(ctx, env, st.value))
            self.setattr(ctx, o, t.attr, new)
        elif isinstance(t, ast.Subscript):
            o = self.eval(ctx, env, t.value)
            k = self.eval_index(ctx, env, t.slice)
            cur = self.getitem(ctx, o, k)
            new = self.inplace_binop(ctx, st.op, cur, self.eval(ctx, env, st.value))
            self.setitem(ctx, o, k, new)
        else:
            raise Unsupported(f"UNSUPPORTED {ctx.where} augassign target")

    def inplace_binop(self, ctx, op, cur, rhs):
        from . import builtins_ as B
        r = B.inplace_op(self, ctx, op, cur, rhs)
        if r is not _MISSING and r is not None:
            return r
        return self.binop(ctx, op, cur, rhs)

    def assign(self, ctx, env, target, val):
        if isinstance(target, ast.Name):
            if target.id in env.globals_decl:
                env.module.ns[target.id] = val
            else:
                self._bind(env, target.id, val)
        elif isinstance(target, (ast.Tuple, ast.List)):
            items = self.iterate(ctx, val)
            star = [i for i, e in enumerate(target.elts) if isinstance(e, ast.Starred)]
            if star:
                i = star[0]
                n_after = len(target.elts) - i - 1
                if len(items) < len(target.elts) - 1:
                    raise self.raise_exc("ValueError")
                for e, v in zip(target.elts[:i], items[:i]):
                    self.assign(ctx, env, e, v)
                self.assign(ctx, env, target.elts[i].value, ListVal(items[i:len(items) - n_after]))
                for e, v in zip(target.elts[i + 1:], items[len(items) - n_after:]):
                    self.assign(ctx, env, e, v)
                return
            if len(items) != len(target.elts):
                raise self.raise_exc("ValueError")
            for e, v in zip(target.elts, items):
                self.assign(ctx, env, e, v)
        elif isinstance(target, ast.Attribute):
            o = self.eval(ctx, env, target.value)
            self.setattr(ctx, o, target.attr, val)
        elif isinstance(target, ast.Subscript):
            o = self.eval(ctx, env, target.value)
            k = self.eval_index(ctx, env, target.slice)
            self.setitem(ctx, o, k, val)
        else:
            raise Unsupported(f"UNSUPPORTED {ctx.where} assign target {target.__class__.__name__}")

    def _bind(self, env, name, val):
        # comprehension / closure scopes: assignment is local to this env
        env.vars[name] = val

    def s_Delete(self, ctx, env, st):
        for t in st.targets:
            if isinstance(t, ast.Name):
                env.vars.pop(t.id, None)
            elif isinstance(t, ast.Subscript):
                o = self.eval(ctx, env, t.value)
                k = self.eval_index(ctx, env, t.slice)
                self.delitem(ctx, o, k)
            elif isinstance(t, ast.Attribute):
                o = self.eval(ctx, env, t.value)
                if isinstance(o, Obj) and t.attr in o.fields:
                    del o.fields[t.attr]
                else:
                    raise self.raise_exc("AttributeError")
            else:
                raise Unsupported(f"UNSUPPORTED {ctx.where} del target")

    def s_Return(self, ctx, env, st):
        raise ReturnSig(self.eval(ctx, env, st.value) if st.value is not None else None)

    def s_Break(self, ctx, env, st):
        raise BreakSig()

    def s_Continue(self, ctx, env, st):
        raise ContinueSig()

    def s_If(self, ctx, env, st):
        if self.truth(ctx, self.eval_cond(ctx, env, st.test)):
            self.exec_block(ctx, env, st.body)
        else:
            self.exec_block(ctx, env, st.orelse)

    def s_Assert(self, ctx, env, st):
        if not self.truth(ctx, self.eval_cond(ctx, env, st.test)):
            raise self.raise_exc("AssertionError")

    def s_Raise(self, ctx, env, st):
        if st.exc is None:
            raise PyvcError(f"bare raise outside handler at {ctx.where}") if self._cur_exc is None else self._cur_exc
        exc = self.eval_raise_expr(ctx, env, st.exc)
        if st.cause is not None:
            try:
                exc.cause = self.eval(ctx, env, st.cause)
            except ExcVal:
                raise
        raise exc

    _cur_exc = None

    def eval_raise_expr(self, ctx, env, node):
        """Evaluate `raise X(...)`: the class is kept, message expressions are dropped (DESIGN 2.1)."""
        if isinstance(node, ast.Call):
            cls = self.eval(ctx, env, node.func)
            if isinstance(cls, ClassVal):
                return self.make_exc(ctx, env, cls, node)
            if isinstance(cls, Builtin) and cls.fn is None:
                raise Unsupported(f"raise of unmodelled exception {cls.name} at {ctx.where}")
        v = self.eval(ctx, env, node)
        if isinstance(v, ClassVal):
            return ExcVal(v)
        if isinstance(v, ExcVal):
            return v
        if isinstance(v, Obj) and self.is_exc_class(v.cls):
            return v.fields.get("__excval__") or ExcVal(v.cls, obj=v)
        raise Unsupported(f"UNSUPPORTED {ctx.where} raise of {v!r}")

    def make_exc(self, ctx, env, cls, callnode):
        # keep constructor arguments only when they are simple names/attributes (no message building)
        args = []
        for a in callnode.args:
            if isinstance(a, (ast.Name, ast.Attribute, ast.Constant)):
                try:
                    args.append(self.eval(ctx, env, a))
                except (PyvcError, ExcVal):
                    args.append(None)
            else:
                args.append(None)
        return ExcVal(cls, tuple(args))

    def is_exc_class(self, cls):
        return isinstance(cls, ClassVal) and self.exc_classes["BaseException"] in cls.mro()

    def raise_exc(self, name, *args):
        return ExcVal(self.exc_classes[name], args)

    def s_Try(self, ctx, env, st):
        try:
            try:
                self.exec_block(ctx, env, st.body)
            except ExcVal as ex:
                for h in st.handlers:
                    if self.exc_matches(ctx, env, ex, h.type):
                        if h.name:
                            env.vars[h.name] = ex
                        saved = self._cur_exc
                        self._cur_exc = ex
                        try:
                            self.exec_block(ctx, env, h.body)
                        finally:
                            self._cur_exc = saved
                        break
                else:
                    raise
            else:
                self.exec_block(ctx, env, st.orelse)
        except PathEnd:
            raise
        except PyvcError:
            raise
        except (ExcVal, ReturnSig, BreakSig, ContinueSig):
            if st.finalbody:
                self.exec_block(ctx, env, st.finalbody)
            raise
        else:
            if st.finalbody:
                self.exec_block(ctx, env, st.finalbody)

    def exc_matches(self, ctx, env, ex, typenode):
        if typenode is None:
            return True
        t = self.eval(ctx, env, typenode)
        classes = t.items if isinstance(t, TupleVal) else [t]
        for c in classes:
            if isinstance(c, ClassVal) and ex.cls.is_subclass(c):
                return True
        return False

    def s_With(self, ctx, env, st):
        raise Unsupported(f"UNSUPPORTED {ctx.where} with")

    def s_Import(self, ctx, env, st):
        for a in st.names:
            if a.asname:
                env.vars[a.asname] = self.world.get_module(a.name)
            else:
                env.vars[a.name.split(".")[0]] = self.world.get_module(a.name.split(".")[0])

    def s_ImportFrom(self, ctx, env, st):
        src = self.world.resolve_relative(env.module, st.level, st.module or "")
        for a in st.names:
            env.vars[a.asname or a.name] = self.import_from(src, a.name)

    def s_FunctionDef(self, ctx, env, st):
        cls = getattr(env, "_defining_class", None)
        qual = f"{cls.name}.{st.name}" if cls is not None else st.name
        if env.func is not None:
            qual = f"{env.func.qualname}.<locals>.{st.name}"
        fv = FuncVal(st, env.module, closure=env if (env.func is not None or env.parent is not None) else None,
                     cls=cls, qualname=qual)
        fv.def_env = env
        v = fv
        for d in reversed(st.decorator_list):
            v = self.apply_decorator(ctx, env, d, v, st)
        env.vars[st.name] = v

    def apply_decorator(self, ctx, env, d, v, st):
        txt = ast.unparse(d)
        if txt == "property":
            return PropertyVal(v)
        if txt.endswith(".setter"):
            base = self.eval(ctx, env, d.value)
            return PropertyVal(base.fget, v)
        if txt == "classmethod":
            return ClassMethodVal(v)
        if txt == "staticmethod":
            return StaticMethodVal(v)
        if txt in ("abc.abstractmethod", "abstractmethod", "projectors.projectable", "projectable",
                   "typing.overload", "overload"):
            if "projectable" in txt and isinstance(v, FuncVal):
                v.projectable = True
            return v
        if txt in ("functools.singledispatch", "singledispatch"):
            return DispatchVal(v)
        if txt.endswith(".register") and isinstance(d, ast.Attribute):
            disp = self.eval(ctx, env, d.value)
            if isinstance(disp, DispatchVal):
                ann = st.args.args[0].annotation
                disp.registry.append((ast.unparse(ann) if ann is not None else "object", v))
                v.qualname = f"{disp.qualname}.register[{ast.unparse(ann) if ann is not None else 'object'}]"
                return disp if st.name == disp.name else v
        if txt.startswith(("functools.lru_cache", "lru_cache", "functools.cache")):
            return CachedFunc(v)
        dv = self.eval(ctx, env, d)
        return self.call(ctx, dv, [v], {})

    def s_ClassDef(self, ctx, env, st):
        bases = []
        for b in st.bases:
            bv = self.eval(ctx, env, b)
            if isinstance(bv, ClassVal):
                bases.append(bv)
            elif isinstance(bv, TupleVal) or bv is None:
                continue
            else:
                txt = ast.unparse(b)
                if txt.split(".")[-1].startswith(("Array[", "NDArray[")) and hasattr(self, "ndarray_class"):
                    bases.append(self.ndarray_class)      # numpy.typing aliases stand for numpy.ndarray
                else:
                    bases.append(self.opaque_class(txt))
        meta = None
        for kw in st.keywords:
            if kw.arg == "metaclass":
                meta = self.eval(ctx, env, kw.value)
        if not bases:
            bases = [self.builtins["object"]]
        cls = ClassVal(st.name, env.module, bases, {}, st, metaclass=meta)
        if meta is None:
            for b in bases:
                if b.metaclass is not None:
                    cls.metaclass = b.metaclass
                    break
        cenv = Env(env.module, parent=env if env.func is not None else None, func=env.func)
        cenv._defining_class = cls
        for s in st.body:
            if isinstance(s, ast.Expr) and isinstance(s.value, ast.Constant):
                continue
            if isinstance(s, ast.AnnAssign) and s.value is None:
                continue
            self.exec_stmt(ctx, cenv, s)
        cls.ns.update(cenv.vars)
        cls.ns.setdefault("__module__", env.module.name)
        from . import builtins_ as B
        B.finish_class(self, ctx, cls)
        v = cls
        for d in reversed(st.decorator_list):
            dv = self.eval(ctx, env, d)
            v = self.call(ctx, dv, [v], {})
        env.vars[st.name] = v

    def opaque_class(self, name):
        key = "ext:" + name
        if key not in self.exc_classes:
            self.exc_classes[key] = ClassVal(name, None, [self.builtins["object"]], {}, external=name)
        return self.exc_classes[key]

    # ---- loops -----------------------------------------------------------
    def loop_spec_for(self, env, st):
        f = env.func
        while f is None and env.parent is not None:
            env = env.parent
            f = env.func
        if f is None:
            return None, None
        specs = self.loop_specs.get(self.full_qualname(f))
        if not specs:
            return None, None
        binding = getattr(f, "_loop_binding", None)
        if binding is None or binding[0] is not specs:
            # Invariants are bound to loops by the loop's header text where the contract gives one (robust against
            # reordered loops and against code added before a loop), by source ordinal otherwise. A contract whose
            # invariants cannot all be bound says so (the loop changed shape; the contract has to be looked at): a checker
            # error, never a verdict on the code.
            loops = [n for n in ast.walk(f.node) if isinstance(n, (ast.For, ast.While))]
            loops.sort(key=lambda n: (n.lineno, n.col_offset))
            heads = getattr(self, "loop_heads", {}).get(self.full_qualname(f)) or {}
            bound, unbound = {}, []
            for o, spec in sorted(specs.items()):
                head = heads.get(o)
                if head is None:
                    if o < len(loops) and id(loops[o]) not in bound:
                        bound[id(loops[o])] = (spec, o)
                    else:
                        unbound.append((o, "loop number %d" % o))
                    continue
                cands = [n for n in loops if id(n) not in bound and loop_head(n) == head]
                if not cands and " in " in head:
                    # the loop variables were renamed: bind by what is iterated over, if that names one loop
                    over = head.split(" in ", 1)[1]
                    alt = [n for n in loops if id(n) not in bound and isinstance(n, ast.For) and ast.unparse(n.iter) == over]
                    cands = alt if len(alt) == 1 else []
                if cands:
                    bound[id(cands[0])] = (spec, o)
                else:
                    unbound.append((o, head))
            binding = (specs, bound, unbound)
            f._loop_binding = binding
        _, bound, unbound = binding
        if id(st) in bound:
            return bound[id(st)]
        if unbound:
            raise Unsupported(f"the loops of {self.full_qualname(f)} changed shape: the contract's invariant for "
                              f"{'; '.join(repr(h) for _, h in unbound)} finds no loop with that header (loop reached: {loop_head(st)!r})")
        return None, None

    MUTATORS = {"append", "extend", "insert", "pop", "remove", "clear", "update", "add", "discard", "setdefault",
                "sort", "reverse", "fill", "popitem", "__setitem__"}

    def loop_frame(self, st):
        """names a loop body may change: assigned names, receivers of mutating method calls, bases of item stores;
        plus whether the body stores into attributes (heap writes need an explicit frame in the spec)"""
        cached = getattr(st, "_pyvc_frame", None)
        if cached is not None:
            return cached
        names, heap = set(), []

        def targets(t):
            if isinstance(t, ast.Name):
                names.add(t.id)
            elif isinstance(t, (ast.Tuple, ast.List)):
                for e in t.elts:
                    targets(e)
            elif isinstance(t, ast.Starred):
                targets(t.value)
            elif isinstance(t, ast.Subscript):
                b = t.value
                through_attr = False
                while isinstance(b, (ast.Subscript, ast.Attribute)):
                    through_attr = through_attr or isinstance(b, ast.Attribute)
                    b = b.value
                if through_attr:
                    heap.append(ast.unparse(t))       # a write into an object reached through an attribute: heap frame
                elif isinstance(b, ast.Name):
                    names.add(b.id)
            elif isinstance(t, ast.Attribute):
                heap.append(ast.unparse(t))

        def walk(n):
            for c in ast.iter_child_nodes(n):
                if isinstance(c, (ast.FunctionDef, ast.Lambda, ast.ClassDef)):
                    continue
                if isinstance(c, ast.Assign):
                    for t in c.targets:
                        targets(t)
                elif isinstance(c, (ast.AugAssign, ast.AnnAssign)):
                    targets(c.target)
                elif isinstance(c, ast.For):
                    targets(c.target)
                elif isinstance(c, ast.NamedExpr):
                    targets(c.target)
                elif isinstance(c, ast.Delete):
                    for t in c.targets:
                        targets(t)
                elif isinstance(c, ast.Call) and isinstance(c.func, ast.Attribute) and c.func.attr in self.MUTATORS:
                    b = c.func.value
                    if isinstance(b, ast.Name):
                        names.add(b.id)
                    elif isinstance(b, ast.Attribute):
                        heap.append(ast.unparse(c.func))
                walk(c)
        for b in st.body:
            walk(ast.Module(body=[b], type_ignores=[]))
        if isinstance(st, ast.For):
            targets(st.target)
        st._pyvc_frame = (names, heap)
        return st._pyvc_frame

    def fresh_like(self, ctx, v, name):
        from . import nparr
        from . import builtins_ as B
        if isinstance(v, bool) or (isinstance(v, Sym) and v.kind == "bool"):
            return Sym(ctx.fresh_bool("hv_" + name))
        if isinstance(v, int) or (isinstance(v, Sym) and v.kind == "int"):
            return Sym(ctx.fresh_int("hv_" + name))
        if isinstance(v, float) or (isinstance(v, Sym) and v.kind == "real"):
            return Sym(ctx.fresh_real("hv_" + name))
        if isinstance(v, nparr.NArr):
            f = z3.Function(ctx.fresh_name("hv_" + name), z3.IntSort(), z3.RealSort())
            n = ctx.fresh_int("hv_len_" + name)
            ctx.assume(n >= 0)
            return nparr.NArr(n, lambda i, f=f: Sym(f(B._z(i))), v.dtype, "havoc")
        if isinstance(v, TupleVal) and all(not isinstance(x, (Obj, ListVal, DictVal)) for x in v.items):
            return TupleVal([self.fresh_like(ctx, x, name) if not isinstance(x, (EnumMember, str, type(None))) else x for x in v.items], v.cls)
        if isinstance(v, Opaque) and v.e is not None:
            return Opaque(ctx.fresh_const("hv_" + name, v.e.sort()), v.tag, v.attrs)
        return Opaque(None, "havoc:" + name, {})

    def enforce_havoc(self, ctx, env, st, spec, before, o):
        """every variable the body may change must have been replaced by the spec's havoc; the rest is havoc'd here
        (so an invariant silent about a changed variable cannot make a proof go through)"""
        names, heap = self.loop_frame(st)
        if heap and not getattr(spec, "heap_frame", None):
            raise PyvcError(f"loop {o} at {ctx.where} writes to the heap ({', '.join(heap[:3])}) but its spec declares no heap_frame")
        for n in sorted(names):
            if n in env.vars and n in before and env.vars[n] is before[n] and not n.startswith("__"):
                env.vars[n] = self.fresh_like(ctx, before[n], n)

    def s_While(self, ctx, env, st):
        spec, o = self.loop_spec_for(env, st)
        if spec is None:
            n = 0
            while self.truth(ctx, self.eval_cond(ctx, env, st.test)):
                n += 1
                if n > self.unroll_limit:
                    raise PyvcError(f"loop at {ctx.where} needs an invariant (unrolled {n} times)")
                try:
                    self.exec_block(ctx, env, st.body)
                except BreakSig:
                    return
                except ContinueSig:
                    continue
            self.exec_block(ctx, env, st.orelse)
            return
        where = ctx.where
        for name, f in spec.invariant(ctx, self, env.vars):
            ctx.oblige(f"loop{o}.entry.{name}", f, kind="invariant")
        before = dict(env.vars)
        spec.havoc(ctx, self, env.vars)
        self.enforce_havoc(ctx, env, st, spec, before, o)
        for name, f in spec.invariant(ctx, self, env.vars):
            ctx.assume(f)
        if self.truth(ctx, self.eval_cond(ctx, env, st.test)):
            try:
                self.exec_block(ctx, env, st.body)
            except BreakSig:
                return
            except ContinueSig:
                pass
            ctx.where = where
            if getattr(spec, "step", None):
                spec.step(ctx, self, env.vars)
            for name, f in spec.invariant(ctx, self, env.vars):
                ctx.oblige(f"loop{o}.preserved.{name}", f, kind="invariant")
            raise PathEnd()
        self.exec_block(ctx, env, st.orelse)

    unroll_limit = 64
    BOUND = 3

    def bounded_items(self, ctx, it):
        """a for-loop over a sequence of symbolic length that has no invariant: only sequences of up to BOUND elements are
        explored. What is established on such a path is a bounded stand-in, never counted as proved; a failed obligation
        on it counts only if its input fails on the real code."""
        seq = self.as_seq(ctx, it)
        n = seq.length
        if isinstance(n, int):
            return [seq.elem(j) for j in range(n)]
        k = ctx.choose([n == j for j in range(self.BOUND + 1)])
        ctx.bounded.append(f"loop at {ctx.where} has no invariant: unrolled for sequences of up to {self.BOUND} elements only")
        return [seq.elem(j) for j in range(k)]

    def map_loop(self, ctx, env, st):
        """`acc = []` ... `for t in it: acc.append(e)` over a sequence of symbolic length, no invariant given: by the definition of
        list displays this is `acc = [e for t in it]` when `acc` is an empty list on entry, `e` does not mention `acc`, and `it` is
        a name or a `range` of names / constants / attribute reads (evaluated a second time here). The loop target is left
        havoc'd after the loop. Returns False when the loop does not have that shape."""
        if st.orelse or len(st.body) != 1 or not isinstance(st.body[0], ast.Expr):
            return False
        c = st.body[0].value
        if not (isinstance(c, ast.Call) and isinstance(c.func, ast.Attribute) and c.func.attr == "append" and isinstance(c.func.value, ast.Name)
                and len(c.args) == 1 and not c.keywords and not isinstance(c.args[0], ast.Starred)):
            return False
        acc = c.func.value.id
        if any(isinstance(x, ast.Name) and x.id == acc for x in ast.walk(c.args[0])):
            return False
        if any(isinstance(x, (ast.Yield, ast.YieldFrom, ast.Await, ast.NamedExpr)) for x in ast.walk(c.args[0])):
            return False
        pure = lambda e: isinstance(e, (ast.Name, ast.Constant)) or (isinstance(e, ast.Attribute) and pure(e.value))
        iok = pure(st.iter) or (isinstance(st.iter, ast.Call) and isinstance(st.iter.func, ast.Name) and st.iter.func.id == "range"
                                and not st.iter.keywords and all(pure(a) for a in st.iter.args))
        if not iok:
            return False
        try:
            cur = self.lookup(env, acc)
        except Exception:
            return False
        if not (isinstance(cur, ListVal) and len(cur.items) == 0) or acc not in env.vars:
            return False
        comp = ast.ListComp(elt=c.args[0], generators=[ast.comprehension(target=st.target, iter=st.iter, ifs=[], is_async=0)])
        ast.copy_location(comp, st)
        ast.fix_missing_locations(comp)
        val = self.eval(ctx, env, comp)
        env.vars[acc] = val
        for x in ast.walk(st.target):
            if isinstance(x, ast.Name):
                env.vars[x.id] = Opaque(None, "havoc:loop-target-after-a-map-loop", {})
        return True

    def s_For(self, ctx, env, st):
        spec, o = self.loop_spec_for(env, st)
        it = self.eval(ctx, env, st.iter)
        if spec is None:
            try:
                items = self.iterate(ctx, it)
            except (Unsupported, PyvcError) as e:
                if "symbolic" not in str(e):
                    raise
                if self.map_loop(ctx, env, st):
                    return
                items = self.bounded_items(ctx, it)
            for v in items:
                self.assign(ctx, env, st.target, v)
                try:
                    self.exec_block(ctx, env, st.body)
                except BreakSig:
                    return
                except ContinueSig:
                    continue
            self.exec_block(ctx, env, st.orelse)
            return
        seq = self.as_seq(ctx, it)
        where = ctx.where
        kname = f"__k{o}"
        env.vars[kname] = 0
        env.vars[f"__seq{o}"] = seq
        for name, f in spec.invariant(ctx, self, env.vars):
            ctx.oblige(f"loop{o}.entry.{name}", f, kind="invariant")
        k = ctx.fresh_int("k")
        ctx.assume(k >= 0)
        ctx.assume(k <= seq.length)
        env.vars[kname] = Sym(k)
        before = dict(env.vars)
        spec.havoc(ctx, self, env.vars)
        self.enforce_havoc(ctx, env, st, spec, before, o)
        for name, f in spec.invariant(ctx, self, env.vars):
            ctx.assume(f)
        if ctx.branch(k < seq.length):
            self.assign(ctx, env, st.target, seq.elem(k))
            try:
                self.exec_block(ctx, env, st.body)
            except BreakSig:
                return
            except ContinueSig:
                pass
            env.vars[kname] = Sym(k + 1)
            ctx.where = where
            if getattr(spec, "step", None):
                spec.step(ctx, self, env.vars)
            for name, f in spec.invariant(ctx, self, env.vars):
                ctx.oblige(f"loop{o}.preserved.{name}", f, kind="invariant")
            raise PathEnd()
        self.exec_block(ctx, env, st.orelse)

    # ------------------------------------------------------------------
    # expressions
    # ------------------------------------------------------------------
    def eval(self, ctx, env, node):
        meth = getattr(self, "e_" + node.__class__.__name__, None)
        if meth is None:
            raise Unsupported(f"UNSUPPORTED {ctx.where} {node.__class__.__name__}")
        return meth(ctx, env, node)

    def eval_cond(self, ctx, env, node):
        return self.eval(ctx, env, node)

    def e_Constant(self, ctx, env, n):
        if n.value is Ellipsis:
            return ELLIPSIS
        return n.value

    def e_Name(self, ctx, env, n):
        return self.lookup(env, n.id)

    def e_Tuple(self, ctx, env, n):
        return TupleVal(self._elts(ctx, env, n.elts))

    def e_List(self, ctx, env, n):
        from . import builtins_ as BB
        if any(isinstance(e, ast.Starred) for e in n.elts):
            parts = []
            for e in n.elts:
                if isinstance(e, ast.Starred):
                    parts.append(self.eval(ctx, env, e.value))
                else:
                    parts.append(ListVal([self.eval(ctx, env, e)]))
            if any(self.is_symbolic_seq(p) for p in parts):
                seq = None
                for p in parts:
                    sq = self.as_seq(ctx, p)
                    seq = sq if seq is None else BB.seq_concat(seq, sq)
                return SymList(seq)
            return ListVal([x for p in parts for x in self.iterate(ctx, p)])
        return ListVal(self._elts(ctx, env, n.elts))

    def e_Set(self, ctx, env, n):
        s = SetVal()
        for v in self._elts(ctx, env, n.elts):
            s.items[hkey(v)] = v
        return s

    def _elts(self, ctx, env, elts):
        out = []
        for e in elts:
            if isinstance(e, ast.Starred):
                out.extend(self.iterate(ctx, self.eval(ctx, env, e.value)))
            else:
                out.append(self.eval(ctx, env, e))
        return out

    def e_Dict(self, ctx, env, n):
        d = DictVal()
        for k, v in zip(n.keys, n.values):
            if k is None:
                src = self.eval(ctx, env, v)
                for hk in src.items:
                    d.items[hk] = src.items[hk]
                    d.keyvals[hk] = src.keyvals[hk]
                continue
            kv = self.eval(ctx, env, k)
            vv = self.eval(ctx, env, v)
            try:
                hk = hkey(kv)
            except Unsupported:
                if len(n.keys) != 1:
                    raise
                d.sym.insert(0, [kv, vv])      # a single entry with a symbolic key
                continue
            d.items[hk] = vv
            d.keyvals[hk] = kv
        return d

    def e_JoinedStr(self, ctx, env, n):
        parts = []
        concrete = True
        for v in n.values:
            if isinstance(v, ast.Constant):
                parts.append(v.value)
            else:
                try:
                    val = self.eval(ctx, env, v.value)
                except PyvcError:
                    val = Opaque(None, "unevaluated")
                spec = None
                if v.format_spec is not None:
                    spec = "".join(p.value for p in v.format_spec.values if isinstance(p, ast.Constant))
                if isinstance(val, (Obj, TupleVal, ExcVal)) or (isinstance(val, (ListVal, DictVal, SetVal, SymList, SeqVal))):
                    # user-defined __str__/__repr__ is not run for message building (DESIGN 2.1): kept lazy
                    s = FmtStr([LazyStr(val, spec, v.conversion)])
                else:
                    s = self.to_str(ctx, val, spec, conv=v.conversion)
                if isinstance(s, str):
                    parts.append(s)
                else:
                    concrete = False
                    parts.append(s)
        if concrete:
            return "".join(parts)
        flat = []
        for p in parts:
            if isinstance(p, FmtStr):
                flat.extend(p.parts)
            else:
                flat.append(p)
        return FmtStr(flat)

    def to_str(self, ctx, val, spec=None, conv=-1):
        from . import builtins_ as B
        return B.to_str(self, ctx, val, spec, conv)

    def e_Attribute(self, ctx, env, n):
        o = self.eval(ctx, env, n.value)
        return self.getattr(ctx, o, n.attr)

    def e_Subscript(self, ctx, env, n):
        o = self.eval(ctx, env, n.value)
        if isinstance(o, ClassVal) and not isinstance(n.slice, ast.Slice) and (o.external in ("tuple", "list", "dict", "set", "type") or o.ns.get("__generic__")):
            return o  # tuple[int, int] etc. (typing generics)
        k = self.eval_index(ctx, env, n.slice)
        return self.getitem(ctx, o, k)

    def eval_index(self, ctx, env, s):
        if isinstance(s, ast.Slice):
            return ("slice",
                    self.eval(ctx, env, s.lower) if s.lower else None,
                    self.eval(ctx, env, s.upper) if s.upper else None,
                    self.eval(ctx, env, s.step) if s.step else None)
        if isinstance(s, ast.Tuple) and any(isinstance(e, ast.Slice) for e in s.elts):
            return TupleVal([self.eval_index(ctx, env, e) for e in s.elts])
        return self.eval(ctx, env, s)

    def e_Starred(self, ctx, env, n):
        raise Unsupported(f"UNSUPPORTED {ctx.where} starred")

    def e_IfExp(self, ctx, env, n):
        if self.truth(ctx, self.eval_cond(ctx, env, n.test)):
            return self.eval(ctx, env, n.body)
        return self.eval(ctx, env, n.orelse)

    def e_BoolOp(self, ctx, env, n):
        is_and = isinstance(n.op, ast.And)
        v = None
        for i, e in enumerate(n.values):
            v = self.eval(ctx, env, e)
            if i == len(n.values) - 1:
                return v
            t = self.truth(ctx, v)
            if is_and and not t:
                return v
            if not is_and and t:
                return v
        return v

    def e_UnaryOp(self, ctx, env, n):
        v = self.eval(ctx, env, n.operand)
        if isinstance(n.op, ast.Not):
            if isinstance(v, Sym) and v.kind == "bool":
                return Sym(z3.Not(v.e))
            return not self.truth(ctx, v)
        if isinstance(n.op, ast.USub):
            from . import nparr as _np
            if isinstance(v, _np.Inf):
                return _np.Inf(not v.positive)
            return self.binop(ctx, ast.Sub(), 0, v)
        if isinstance(n.op, ast.UAdd):
            return v
        if isinstance(n.op, ast.Invert):
            from . import builtins_ as B
            return B.invert(self, ctx, v)
        raise Unsupported(f"UNSUPPORTED {ctx.where} unary op")

    def e_BinOp(self, ctx, env, n):
        a = self.eval(ctx, env, n.left)
        b = self.eval(ctx, env, n.right)
        return self.binop(ctx, n.op, a, b)

    def e_Compare(self, ctx, env, n):
        left = self.eval(ctx, env, n.left)
        from . import builtins_ as BB
        if (len(n.ops) == 1 and isinstance(n.ops[0], (ast.Is, ast.IsNot)) and isinstance(n.left, ast.Name) and isinstance(left, BB.OptVal)
                and isinstance(n.comparators[0], ast.Constant) and n.comparators[0].value is None and n.left.id in env.vars):
            # `x is None` on an optional value: decide it here and let x be None / the value from now on
            none = ctx.branch(left.is_none)
            env.vars[n.left.id] = None if none else left.val
            return none if isinstance(n.ops[0], ast.Is) else not none
        result = None
        for op, rn in zip(n.ops, n.comparators):
            right = self.eval(ctx, env, rn)
            r = self.compare(ctx, op, left, right)
            if len(n.ops) == 1:
                return r
            if not self.truth(ctx, r):
                return False
            left = right
            result = r
        return result

    def e_Lambda(self, ctx, env, n):
        fv = FuncVal(n, env.module, closure=env, qualname="<lambda>")
        fv.def_env = env
        return fv

    def e_Call(self, ctx, env, n):
        # dropped calls (DESIGN 2.1)
        if isinstance(n.func, ast.Attribute):
            try:
                txt = ast.unparse(n.func)
            except Exception:
                txt = ""
            if txt.startswith(DROPPED_CALL_PREFIXES):
                return None
            if txt == "warnings.warn":
                return None
        if isinstance(n.func, ast.Name) and n.func.id == "super" and False:
            pass
        f = self.eval(ctx, env, n.func) if not (isinstance(n.func, ast.Name) and n.func.id == "super") else None
        if f is None:
            return self.make_super(ctx, env, n)
        args = []
        for a in n.args:
            if isinstance(a, ast.Starred):
                args.extend(self.iterate(ctx, self.eval(ctx, env, a.value)))
            else:
                args.append(self.eval(ctx, env, a))
        kwargs = {}
        for kw in n.keywords:
            if kw.arg is None:
                d = self.eval(ctx, env, kw.value)
                for hk, v in d.items.items():
                    kwargs[d.keyvals[hk]] = v
            else:
                kwargs[kw.arg] = self.eval(ctx, env, kw.value)
        return self.call(ctx, f, args, kwargs)

    def make_super(self, ctx, env, n):
        e = env
        while e is not None and e.func is None:
            e = e.parent
        if e is None or e.func.cls is None:
            raise Unsupported(f"super() outside method at {ctx.where}")
        f = e.func
        selfname = f.node.args.args[0].arg
        selfv = e.vars[selfname]
        return SuperVal(f.cls, selfv)

    def e_ListComp(self, ctx, env, n):
        return self._comp(ctx, env, n, "list")

    def e_GeneratorExp(self, ctx, env, n):
        return self._comp(ctx, env, n, "gen")

    def e_SetComp(self, ctx, env, n):
        items = self._comp(ctx, env, n, "list")
        s = SetVal()
        for v in self.iterate(ctx, items):
            s.items[hkey(v)] = v
        return s

    def e_DictComp(self, ctx, env, n):
        from . import pybuiltins as PB
        from . import builtins_ as BB
        if len(n.generators) == 1:
            g = n.generators[0]
            it = self.eval(ctx, env, g.iter)
            if isinstance(it, PB.MapItems) and not it.keys_only:
                # {k: v for k, v in m.items() if cond(k, v)}: filtered copy of a symbolic map (closure form)
                t = g.target
                if not (isinstance(t, ast.Tuple) and len(t.elts) == 2 and all(isinstance(e, ast.Name) for e in t.elts)
                        and isinstance(n.key, ast.Name) and n.key.id == t.elts[0].id
                        and isinstance(n.value, ast.Name) and n.value.id == t.elts[1].id):
                    raise Unsupported(f"UNSUPPORTED {ctx.where} dict comprehension over a symbolic map beyond the filtered-copy idiom")
                old = it.m.lookup
                interp = self
                kn, vn = t.elts[0].id, t.elts[1].id
                ifs = list(g.ifs)

                def lookup(q, old=old):
                    p0, v0 = old(q)
                    e2 = Env(env.module, parent=env, func=None)
                    e2.vars[kn], e2.vars[vn] = q, v0
                    cond = z3.BoolVal(True)
                    for c in ifs:
                        cv = interp.eval(ctx, e2, c)
                        cond = z3.And(cond, BB.zbool(cv) if not isinstance(cv, bool) else z3.BoolVal(cv))
                    return smt.simp(z3.And(p0, cond)), v0
                from .values import MapVal
                return MapVal(lookup, "filtered")
        d = DictVal()
        cenv = Env(env.module, parent=env, func=None)

        def rec(gi):
            if gi == len(n.generators):
                k = self.eval(ctx, cenv, n.key)
                v = self.eval(ctx, cenv, n.value)
                hk = hkey(k)
                d.items[hk] = v
                d.keyvals[hk] = k
                return
            g = n.generators[gi]
            it = self.eval(ctx, cenv if gi else env, g.iter)
            for x in self.iterate(ctx, it):
                self.assign(ctx, cenv, g.target, x)
                if all(self.truth(ctx, self.eval(ctx, cenv, c)) for c in g.ifs):
                    rec(gi + 1)
        rec(0)
        return d

    def _comp(self, ctx, env, n, kind):
        cenv = Env(env.module, parent=env, func=None)
        # closure form for a single generator over a symbolic-length sequence without filter
        if len(n.generators) == 1:
            g = n.generators[0]
            it = self.eval(ctx, env, g.iter)
            if self.is_symbolic_seq(it):
                if g.ifs:
                    # [elt for x in seq if cond(x)] over a sequence of symbolic length: the elements at the positions where the
                    # condition holds, in order (the enumeration of a boolean mask, as for numpy's a[mask])
                    from . import nparr
                    from . import builtins_ as BB
                    seq0 = self.as_seq(ctx, it)
                    interp0 = self

                    def cond_at(i, seq0=seq0, g=g, env=env, ctx=ctx):
                        e2 = Env(env.module, parent=env, func=None)
                        interp0.assign(ctx, e2, g.target, seq0.elem(i))
                        f = z3.BoolVal(True)
                        for c in g.ifs:
                            cv = interp0.eval(ctx, e2, c)
                            f = z3.And(f, BB.zbool(cv) if not isinstance(cv, bool) else z3.BoolVal(cv))
                        return Sym(smt.simp(f))
                    mask = nparr.NArr(seq0.length, cond_at, "bool", "comprehension-filter")
                    ctx.assumed_ext.add("a filtered comprehension over a sequence keeps the elements satisfying the condition, in order")
                    en = nparr.mask_enum(ctx, mask)

                    def elem_f(j, seq0=seq0, g=g, n=n, env=env, ctx=ctx, en=en):
                        e2 = Env(env.module, parent=env, func=None)
                        interp0.assign(ctx, e2, g.target, seq0.elem(smt.simp(en.SEL(BB._z(j)))))
                        return interp0.eval(ctx, e2, n.elt)
                    res = SeqVal(en.cnt, elem_f, tag="filtered-comp")
                    return SymList(res) if kind == "list" else res
                seq = self.as_seq(ctx, it)
                interp = self

                def elem(i, seq=seq, g=g, n=n, env=env, ctx=ctx):
                    e2 = Env(env.module, parent=env, func=None)
                    interp.assign(ctx, e2, g.target, seq.elem(i))
                    return interp.eval(ctx, e2, n.elt)
                res = SeqVal(seq.length, elem, tag="comp")
                return SymList(res) if kind == "list" else res
            out = []
            for x in self.iterate(ctx, it):
                self.assign(ctx, cenv, g.target, x)
                if all(self.truth(ctx, self.eval(ctx, cenv, c)) for c in g.ifs):
                    out.append(self.eval(ctx, cenv, n.elt))
            return ListVal(out)
        out = []

        def rec(gi):
            if gi == len(n.generators):
                out.append(self.eval(ctx, cenv, n.elt))
                return
            g = n.generators[gi]
            it = self.eval(ctx, cenv if gi else env, g.iter)
            for x in self.iterate(ctx, it):
                self.assign(ctx, cenv, g.target, x)
                if all(self.truth(ctx, self.eval(ctx, cenv, c)) for c in g.ifs):
                    rec(gi + 1)
        rec(0)
        return ListVal(out)

    def is_symbolic_seq(self, v):
        from . import nparr
        if isinstance(v, nparr.NArr):
            return not isinstance(v.n, int)
        if isinstance(v, SymList):
            return True
        if isinstance(v, SeqVal):
            return not isinstance(v.length, int)
        return False

    def as_seq(self, ctx, v):
        from . import nparr
        if isinstance(v, nparr.NArr):
            return SeqVal(v.n, v.elem, tag="ndarray")
        if isinstance(v, SeqVal):
            return v
        if isinstance(v, SymList):
            return v.seq
        items = self.iterate(ctx, v)
        return SeqVal(len(items), lambda i, items=items: self._concrete_index(items, i), tag="concrete")

    def _concrete_index(self, items, i):
        if isinstance(i, int):
            return items[i]
        s = smt.simp(i)
        if z3.is_int_value(s):
            return items[s.as_long()]
        if not items:
            raise Unsupported("symbolic index into empty concrete list")
        from . import builtins_ as B
        r = items[-1]
        for t in range(len(items) - 2, -1, -1):
            r = B.ite_val(s == t, (lambda v=items[t]: v), (lambda v=r: v))
        return r

    # ------------------------------------------------------------------
    # delegation to the builtin layer
    # ------------------------------------------------------------------
    def truth(self, ctx, v):
        from . import builtins_ as B
        return B.truth(self, ctx, v)

    def binop(self, ctx, op, a, b):
        from . import builtins_ as B
        return B.binop(self, ctx, op, a, b)

    def compare(self, ctx, op, a, b):
        from . import builtins_ as B
        return B.compare(self, ctx, op, a, b)

    def iterate(self, ctx, v):
        from . import builtins_ as B
        return B.iterate(self, ctx, v)

    def getitem(self, ctx, o, k):
        from . import builtins_ as B
        return B.getitem(self, ctx, o, k)

    def setitem(self, ctx, o, k, v):
        from . import builtins_ as B
        return B.setitem(self, ctx, o, k, v)

    def delitem(self, ctx, o, k):
        from . import builtins_ as B
        return B.delitem(self, ctx, o, k)

    def getattr(self, ctx, o, name):
        from . import builtins_ as B
        return B.getattr_(self, ctx, o, name)

    def setattr(self, ctx, o, name, v):
        from . import builtins_ as B
        return B.setattr_(self, ctx, o, name, v)

    # ------------------------------------------------------------------
    # calls
    # ------------------------------------------------------------------
    def full_qualname(self, f):
        return f"{f.module.name}.{f.qualname}"

    def call(self, ctx, f, args, kwargs=None):
        kwargs = kwargs or {}
        if isinstance(f, BoundMethod):
            return self.call(ctx, f.func, [f.self] + list(args), kwargs)
        if isinstance(f, FuncVal):
            return self.call_function(ctx, f, args, kwargs)
        if isinstance(f, Builtin):
            if f.fn is None:
                raise Unsupported(f"call of unmodelled external {f.name} at {ctx.where}")
            return f.fn(ctx, *args, **kwargs)
        if isinstance(f, ClassVal):
            from . import builtins_ as B
            return B.instantiate(self, ctx, f, args, kwargs)
        if isinstance(f, DispatchVal):
            from . import builtins_ as B
            return B.dispatch_call(self, ctx, f, args, kwargs)
        if isinstance(f, CachedFunc):
            return self.call_cached(ctx, f, args, kwargs)
        if isinstance(f, StaticMethodVal):
            return self.call(ctx, f.func, args, kwargs)
        if isinstance(f, Obj):
            m, _ = f.cls.lookup("__call__")
            if m is not None:
                return self.call(ctx, m, [f] + list(args), kwargs)
        if isinstance(f, Opaque) and f.attrs.get("call"):
            return f.attrs["call"](ctx, *args, **kwargs)
        raise Unsupported(f"call of {f!r} at {ctx.where}")

    def call_cached(self, ctx, cf, args, kwargs):
        """functools.lru_cache / cache: a process-wide memo keyed by the argument tuple (objects by identity, data by value),
        consulted before the body -- modelled as ghost state ctx.ghost['memo:<qualified name>'] (a symbolic map)."""
        from . import builtins_ as BB
        from .values import MapVal
        ctx.assumed_ext.add("functools.lru_cache: memo keyed by the arguments, unbounded for the purposes of the proof (eviction only forgets)")
        if kwargs:
            raise Unsupported("keyword arguments to an lru_cache'd function")
        key = TupleVal(list(args))
        name = "memo:" + self.full_qualname(cf.func)
        memo = ctx.ghost.get(name)
        if memo is None:
            memo = ctx.ghost[name] = MapVal(lambda q: (z3.BoolVal(False), None), "lru-memo")
        pres, val = memo.lookup(key)
        if ctx.branch(pres):
            return val.val if isinstance(val, BB.OptVal) else val
        r = self.call(ctx, cf.func, args, kwargs)
        BB.map_store(self, ctx, memo, key, r)
        return r

    def call_function(self, ctx, f, args, kwargs):
        q = self.full_qualname(f)
        if q in self.hooks:
            return self.hooks[q](self, ctx, f, args, kwargs)
        if q in self.contracts and (q != self.under_test or ctx.depth > 0) and q not in self.inline and not self._inline_match_local(q):
            c = self.contracts[q]
            from .contract import Contract as _C
            if type(c).outcomes is not _C.outcomes or type(c).apply is not _C.apply:
                return c.apply(self, ctx, f, args, kwargs)
            # a contract that only states what is verified (no call-site summary): the callee is inlined
            ctx.inlined.add(q + " (verification-only contract: inlined)")
            return self.inline_call(ctx, f, args, kwargs)
        if ctx.depth > 0 and not (self.inline_all or q in self.inline or q in self.always_inline or self._inline_match(q)
                                  or self._nested_of_allowed(f)):
            if self.strict_inline:
                raise PyvcError(f"repo callee without contract (not declared inline): {q} at {ctx.where}")
            # a callee that has no contract is verified by inlining its real body (exact, listed in the evidence)
            ctx.inlined.add(q + " (no contract: inlined)")
        elif ctx.depth > 0:
            ctx.inlined.add(q)
        return self.inline_call(ctx, f, args, kwargs)

    def _nested_of_allowed(self, f):
        """nested functions and lambdas are part of the function that defines them"""
        env = getattr(f, "def_env", None)
        while env is not None:
            if env.func is not None:
                q = self.full_qualname(env.func)
                return (q == self.under_test or q in self.inline or q in self.always_inline or self._inline_match(q)
                        or self._nested_of_allowed(env.func))
            env = env.parent
        return False

    def _inline_match_local(self, q):
        return any(p.endswith("*") and q.startswith(p[:-1]) for p in self.inline)

    def _inline_match(self, q):
        for p in list(self.inline) + list(self.always_inline):
            if p.endswith("*") and q.startswith(p[:-1]):
                return True
        return False

    def bind_args(self, ctx, f, args, kwargs):
        node = f.node
        a = node.args
        env = Env(f.module, parent=f.closure, func=f)
        params = [p.arg for p in a.posonlyargs + a.args]
        if f.defaults is None:
            denv = getattr(f, "def_env", None) or Env(f.module)
            f.defaults = [self.eval(ctx, denv, d) for d in a.defaults]
            f.kw_defaults = [self.eval(ctx, denv, d) if d is not None else _MISSING for d in a.kw_defaults]
        args = list(args)
        kwargs = dict(kwargs)
        n = len(params)
        for i, p in enumerate(params):
            if i < len(args):
                env.vars[p] = args[i]
            elif p in kwargs:
                env.vars[p] = kwargs.pop(p)
            else:
                di = i - (n - len(f.defaults))
                if di < 0:
                    raise self.raise_exc("TypeError")
                env.vars[p] = f.defaults[di]
        if len(args) > n:
            if a.vararg is None:
                raise self.raise_exc("TypeError")
            env.vars[a.vararg.arg] = TupleVal(args[n:])
        elif a.vararg is not None:
            env.vars[a.vararg.arg] = TupleVal(())
        for p, d in zip(a.kwonlyargs, f.kw_defaults):
            if p.arg in kwargs:
                env.vars[p.arg] = kwargs.pop(p.arg)
            elif d is not _MISSING:
                env.vars[p.arg] = d
            else:
                raise self.raise_exc("TypeError")
        if kwargs:
            if a.kwarg is None:
                raise self.raise_exc("TypeError")
            d = DictVal()
            for k, v in kwargs.items():
                d.items[hkey(k)] = v
                d.keyvals[hkey(k)] = k
            env.vars[a.kwarg.arg] = d
        elif a.kwarg is not None:
            env.vars[a.kwarg.arg] = DictVal()
        return env

    def inline_call(self, ctx, f, args, kwargs):
        env = self.bind_args(ctx, f, args, kwargs)
        if isinstance(f.node, ast.Lambda):
            return self.eval(ctx, env, f.node.body)
        if any(isinstance(n, (ast.Yield, ast.YieldFrom)) for n in ast.walk(f.node)):
            return self.run_generator(ctx, f, env)
        ctx.depth += 1
        if ctx.depth > self.max_depth:
            raise PyvcError(f"call depth exceeded at {ctx.where}")
        saved_where = ctx.where
        try:
            self.exec_block(ctx, env, f.node.body)
            return None
        except ReturnSig as r:
            return r.value
        finally:
            ctx.depth -= 1
            ctx.where = saved_where

    def run_generator(self, ctx, f, env):
        """Generators over concrete structures: collected eagerly into a list."""
        out = []
        saved = getattr(self, "_yield_sink", None)
        self._yield_sink = out
        ctx.depth += 1
        try:
            self.exec_block(ctx, env, f.node.body)
        except ReturnSig:
            pass
        finally:
            ctx.depth -= 1
            self._yield_sink = saved
        return ListVal(out)

    def e_Yield(self, ctx, env, n):
        self._yield_sink.append(self.eval(ctx, env, n.value) if n.value else None)
        return None

    def e_YieldFrom(self, ctx, env, n):
        self._yield_sink.extend(self.iterate(ctx, self.eval(ctx, env, n.value)))
        return None

    def e_NamedExpr(self, ctx, env, n):
        v = self.eval(ctx, env, n.value)
        self.assign(ctx, env, n.target, v)
        return v


class LazyStr:
    """str()/format() of an object, not evaluated unless the text is needed"""
    __slots__ = ("val", "spec", "conv")

    def __init__(self, val, spec, conv):
        self.val, self.spec, self.conv = val, spec, conv

    def __repr__(self):
        return f"LazyStr({self.val!r})"


class SuperVal:
    __slots__ = ("cls", "self")

    def __init__(self, cls, self_):
        self.cls = cls
        self.self = self_
