"""SMT back ends: z3 (python API) first, /usr/bin/cvc5 on SMT-LIB export for unknowns."""
from __future__ import annotations

import os
import subprocess
import tempfile
import time

import z3

Z3_TIMEOUT_MS = int(os.environ.get("PYVC_Z3_MS", "10000"))
CVC5_TIMEOUT_S = int(os.environ.get("PYVC_CVC5_S", "20"))
FEAS_TIMEOUT_MS = int(os.environ.get("PYVC_FEAS_MS", "150"))
RETRY_FACTOR = int(os.environ.get("PYVC_RETRY_FACTOR", "4"))
# retries exist so that a busy machine does not turn a discharged obligation into an undecided one; a tree on which many obligations are
# genuinely undecidable must not cost a retry each: every worker process has a pool of retry time
RETRY_POOL_S = int(os.environ.get("PYVC_RETRY_POOL_S", "150"))
RETRY_SPENT_S = 0.0

_theories = []   # callables: list[z3 Bool] -> list[z3 Bool] (lemma instances)


PLUS_INF = z3.Real("PLUS_INF")


def register_theory(fn):
    if fn not in _theories:
        _theories.append(fn)


def theory_facts(formulas):
    out = []
    for th in _theories:
        out.extend(th(formulas))
    return out


def is_true(e):
    return z3.is_true(e)


def is_false(e):
    return z3.is_false(e)


def simp(e):
    return z3.simplify(e)


class Stats:
    def __init__(self):
        self.z3_calls = 0
        self.z3_time = 0.0
        self.cvc5_calls = 0
        self.cvc5_time = 0.0
        self.feas_calls = 0
        self.feas_time = 0.0


STATS = Stats()


def feasible(hyps, extra=None):
    """Path feasibility: True unless z3 proves unsat quickly (unknown = feasible)."""
    s = z3.Solver()
    s.set("timeout", FEAS_TIMEOUT_MS)
    fs = list(hyps) + ([extra] if extra is not None else [])
    for h in fs:
        s.add(h)
    for f in theory_facts(fs):
        s.add(f)
    t0 = time.time()
    r = s.check()
    STATS.feas_calls += 1
    STATS.feas_time += time.time() - t0
    return r != z3.unsat


def to_smt2(hyps, goal):
    s = z3.Solver()
    for h in hyps:
        s.add(h)
    s.add(z3.Not(goal))
    return s.to_smt2()


def run_cvc5(smt2, timeout_s=None):
    timeout_s = timeout_s or CVC5_TIMEOUT_S
    with tempfile.NamedTemporaryFile("w", suffix=".smt2", dir=os.environ.get("PYVC_TMP", "/var/tmp"), delete=False) as f:
        f.write("(set-logic ALL)\n" + smt2.replace("(set-info :status unknown)", ""))
        path = f.name
    t0 = time.time()
    try:
        p = subprocess.run(["/usr/bin/cvc5", f"--tlimit={timeout_s * 1000}", path],
                           capture_output=True, text=True, timeout=timeout_s + 5)
        out = p.stdout.strip().splitlines()
        res = out[0] if out else "unknown"
    except subprocess.TimeoutExpired:
        res = "unknown"
    finally:
        os.unlink(path)
    STATS.cvc5_calls += 1
    STATS.cvc5_time += time.time() - t0
    return res if res in ("sat", "unsat") else "unknown"


def prove(hyps, goal, timeout_ms=None, use_cvc5=True, want_model=True):
    """Returns (verdict, backend, model_or_None, seconds). verdict in proved/failed/unknown."""
    timeout_ms = timeout_ms or Z3_TIMEOUT_MS
    fs = list(hyps) + [goal]
    facts = theory_facts(fs)
    # instantiate once more on produced facts (lemma instances can mention new terms)
    s = z3.Solver()
    s.set("timeout", timeout_ms)
    for h in hyps:
        s.add(h)
    for f in facts:
        s.add(f)
    s.add(z3.Not(goal))
    t0 = time.time()
    r = s.check()
    dt = time.time() - t0
    STATS.z3_calls += 1
    STATS.z3_time += dt
    if r == z3.unsat:
        return "proved", "z3", None, dt
    if r == z3.sat:
        return "failed", "z3", (s.model() if want_model else None), dt
    reason = s.reason_unknown()
    if "incomplete" in reason or "quantifier" in reason:
        # z3 has a candidate model it cannot check against quantified hypotheses (not a timeout). Decide on the
        # quantifier-free part: unsat there proves the obligation; sat there is a counterexample candidate.
        qf = [h for h in list(hyps) + facts if not _has_quantifier(h)]
        s2 = z3.Solver()
        s2.set("timeout", timeout_ms)
        for h in qf:
            s2.add(h)
        s2.add(z3.Not(goal))
        r2 = s2.check()
        dt = time.time() - t0
        if r2 == z3.unsat:
            return "proved", "z3", None, dt
        if r2 == z3.sat and not _has_quantifier(goal):
            return "failed", "z3(candidate: quantified hypotheses not checked by the model)", (s2.model() if want_model else None), dt
    if use_cvc5:
        c = run_cvc5(to_smt2(list(hyps) + facts, goal))
        dt = time.time() - t0
        if c == "unsat":
            return "proved", "cvc5", None, dt
        if c == "sat":
            return "failed", "cvc5", None, dt
    global RETRY_SPENT_S
    if RETRY_FACTOR > 1 and ("timeout" in reason or "canceled" in reason) and RETRY_SPENT_S < RETRY_POOL_S:
        t_retry = time.time()
        # a time-out, not incompleteness: one more attempt with a larger budget and another seed, so that a busy machine
        # does not turn a discharged obligation into an undecided one
        s3 = z3.Solver()
        s3.set("timeout", timeout_ms * RETRY_FACTOR)
        s3.set("random_seed", 7)
        for h in hyps:
            s3.add(h)
        for f in facts:
            s3.add(f)
        s3.add(z3.Not(goal))
        r3 = s3.check()
        RETRY_SPENT_S += time.time() - t_retry
        dt = time.time() - t0
        if r3 == z3.unsat:
            return "proved", "z3(retry)", None, dt
        if r3 == z3.sat:
            return "failed", "z3(retry)", (s3.model() if want_model else None), dt
    return "unknown", "z3+cvc5" if use_cvc5 else "z3", None, dt


def _has_quantifier(e):
    seen = set()
    work = [e]
    while work:
        x = work.pop()
        if x.get_id() in seen:
            continue
        seen.add(x.get_id())
        if z3.is_quantifier(x):
            return True
        work.extend(x.children())
    return False


def cross_check_cvc5(hyps, goal):
    facts = theory_facts(list(hyps) + [goal])
    return run_cvc5(to_smt2(list(hyps) + facts, goal))


def And(*xs):
    xs = [x for x in xs if not is_true(x)]
    if not xs:
        return z3.BoolVal(True)
    if len(xs) == 1:
        return xs[0]
    return z3.And(*xs)


def Or(*xs):
    xs = [x for x in xs if not is_false(x)]
    if not xs:
        return z3.BoolVal(False)
    if len(xs) == 1:
        return xs[0]
    return z3.Or(*xs)
