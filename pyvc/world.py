"""Module table: parses the real sources under /repo lazily; externals are models."""
from __future__ import annotations

import ast
import hashlib
import os

from .values import ModuleVal, PyvcError

REPO = os.environ.get("PYVC_REPO", "/repo")
REPO_PACKAGES = ("openfisca_core", "openfisca_web_api")


class World:
    def __init__(self, repo=None):
        self.repo = repo or REPO
        self.modules = {}
        self.externals = {}      # name -> ModuleVal(external)
        self.sources = {}        # module name -> source text
        self.trees = {}
        self.interp = None       # set by Interp

    def is_repo_module(self, name):
        return name.split(".")[0] in REPO_PACKAGES

    def module_path(self, name):
        base = os.path.join(self.repo, *name.split("."))
        if os.path.isdir(base) and os.path.exists(os.path.join(base, "__init__.py")):
            return os.path.join(base, "__init__.py"), True
        if os.path.exists(base + ".py"):
            return base + ".py", False
        return None, False

    def get_module(self, name):
        if name in self.modules:
            return self.modules[name]
        if self.is_repo_module(name):
            path, is_pkg = self.module_path(name)
            if path is None:
                raise PyvcError(f"repo module not found: {name}")
            m = ModuleVal(name, path)
            m.is_pkg = is_pkg
            self.modules[name] = m
            src = open(path, encoding="utf-8").read()
            self.sources[name] = src
            tree = ast.parse(src, filename=path)
            self.trees[name] = tree
            self.interp.load_module_body(m, tree)
            return m
        return self.get_external(name)

    def get_external(self, name):
        if name not in self.externals:
            m = ModuleVal(name, external=name)
            self.externals[name] = m
        self.modules[name] = self.externals[name]
        return self.externals[name]

    def resolve_relative(self, module, level, name):
        """absolute module name for `from <level dots><name> import ...` inside module."""
        if level == 0:
            return name
        parts = module.name.split(".")
        if not module.is_pkg:
            parts = parts[:-1]
        if level > 1:
            parts = parts[: len(parts) - (level - 1)]
        if name:
            parts = parts + name.split(".")
        return ".".join(parts)


def function_source_hash(world, module_name, node):
    src = world.sources[module_name]
    seg = ast.get_source_segment(src, node) or ""
    return hashlib.sha256(seg.encode()).hexdigest()
