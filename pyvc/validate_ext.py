"""Validation of the spec theories and of the external models against the standard library
(python3-vt; prints JSON lines)."""
import datetime
import json
import os
import random
import sys

sys.path.insert(0, os.path.dirname(os.path.dirname(os.path.abspath(__file__))))
from pyvc import calmodel as M  # noqa: E402


def calendar_vs_datetime(tier, seed):
    lo, hi = (1, 9999) if tier == "thorough" else (1800, 2200)
    bad = []
    n = 0
    d0 = datetime.date(lo, 1, 1)
    o = d0.toordinal()
    end = datetime.date(hi, 12, 31).toordinal()
    y, m, d = lo, 1, 1
    while o <= end:
        exp = o - 719163
        if M.ordinal(y, m, d) != exp or M.civil(exp) != (y, m, d) or M.weekday0(exp) != datetime.date(y, m, d).weekday():
            bad.append((y, m, d))
        n += 1
        o += 1
        d += 1
        if d > M.dim(12 * y + m - 1):
            d = 1
            m += 1
            if m > 12:
                m = 1
                y += 1
    # boundary years always
    for yy in (1, 2, 3, 4, 100, 400, 999, 1000, 9996, 9999):
        for mm in range(1, 13):
            for dd in (1, M.dim(12 * yy + mm - 1)):
                n += 1
                if M.ordinal(yy, mm, dd) != datetime.date(yy, mm, dd).toordinal() - 719163:
                    bad.append((yy, mm, dd))
                if tuple(datetime.date(yy, mm, dd).isocalendar()) != M.isocalendar(yy, mm, dd) and not (yy == 1 or yy == 9999):
                    bad.append(("iso", yy, mm, dd))
    return {"name": f"calendar closed forms vs datetime (years {lo}..{hi}, every day)", "ok": not bad, "cases": n,
            "detail": repr(bad[:5])}


def z3_vs_calmodel(tier, seed):
    import z3
    from pyvc import theory_cal as cal
    rnd = random.Random(seed)
    bad = []
    n = 0
    ts = [rnd.randint(12, 12 * 9999 + 11) for _ in range(300 if tier == "quick" else 5000)] + [12, 13, 23, 24, 12 * 9999 + 11, 12 * 2000 + 1, 12 * 1900 + 1]
    for t in ts:
        n += 1
        a = z3.simplify(cal.om_closed(z3.IntVal(t))).as_long()
        b = z3.simplify(cal.dimf(z3.IntVal(t))).as_long()
        c = z3.is_true(z3.simplify(cal.leapspan(z3.IntVal(t))))
        if a != M.om(t) or b != M.dim(t) or c != (M.om(t + 12) - M.om(t) == 366):
            bad.append(t)
    for o in [rnd.randint(-700000, 2900000) for _ in range(200)]:
        n += 1
        if z3.simplify(cal.weekday0(z3.IntVal(o))).as_long() != M.weekday0(o):
            bad.append(("wd", o))
    return {"name": "z3 closed forms (theory_cal) vs pyvc.calmodel", "ok": not bad, "cases": n, "detail": repr(bad[:5])}


def extmodel_vs_calmodel(tier, seed):
    """the symbolic pendulum model, run on concrete inputs, must entail the calmodel result"""
    import z3
    from pyvc.interp import Interp
    from pyvc.ctx import Ctx
    from pyvc import replay as RP
    from pyvc import builtins_ as B
    I = Interp()
    rnd = random.Random(seed + 1)
    bad = []
    n = 0
    N = 60 if tier == "quick" else 600
    for _ in range(N):
        y = rnd.randint(1500, 2500)
        m = rnd.randint(1, 12)
        d = rnd.randint(1, M.dim(12 * y + m - 1))
        ops = [("add", dict(years=rnd.randint(-20, 20), months=rnd.randint(-30, 30), weeks=rnd.randint(-9, 9), days=rnd.randint(-400, 400))),
               ("add", dict(months=rnd.randint(-30, 30))), ("add", dict(days=rnd.randint(-400, 400))),
               ("start_of", "week"), ("end_of", "week"), ("end_of", "month"), ("isocalendar", None)]
        for op, arg in ops:
            n += 1
            ctx = Ctx()
            dt = I.mk_date(y, m, d)
            meth = I.getattr(ctx, dt, op)
            if op == "add":
                r = I.call(ctx, meth, [], arg)
                exp = M.add(y, m, d, **arg)
                got = [B.zint(r.fields[k]) for k in "ymd"]
            elif op == "isocalendar":
                r = I.call(ctx, meth, [], {})
                exp = M.isocalendar(y, m, d)
                got = [B.zint(x) for x in r.items]
            else:
                r = I.call(ctx, meth, [arg], {})
                exp = {"start_of": M.start_of_week, "end_of": M.end_of_week if arg == "week" else M.end_of_month}[op](y, m, d)
                got = [B.zint(r.fields[k]) for k in "ymd"]
            s = z3.Solver()
            s.set("timeout", 20000)
            for h in ctx.hyps():
                s.add(RP.reveal(h))
            s.add(z3.Not(RP.reveal(z3.And(*[g == e for g, e in zip(got, exp)]))))
            if s.check() != z3.unsat:
                bad.append((y, m, d, op, arg))
    return {"name": "symbolic pendulum/datetime model entails pyvc.calmodel on concrete inputs", "ok": not bad,
            "cases": n, "detail": repr(bad[:5])}


def iso_order(tier, seed):
    """string order of ISO dates with 4-digit years = date order = order of the integer key y*10000+m*100+d"""
    rnd = random.Random(seed)
    bad = []
    n = 0
    prev = None
    years = range(1000, 10000) if tier == "thorough" else list(range(1000, 1100)) + list(range(1890, 2110)) + list(range(9900, 10000))
    for y in years:
        for m in range(1, 13):
            for d in range(1, M.dim(12 * y + m - 1) + 1):
                cur = ("%04d-%02d-%02d" % (y, m, d), y * 10000 + m * 100 + d, M.ordinal(y, m, d), datetime.date(y, m, d).isoformat())
                n += 1
                if cur[0] != cur[3]:
                    bad.append(cur)
                if prev is not None and prev[2] + 1 == cur[2] and not (prev[0] < cur[0] and prev[1] < cur[1]):
                    bad.append((prev, cur))
                prev = cur
    for _ in range(20000):
        a = (rnd.randint(1000, 9999), rnd.randint(1, 12), rnd.randint(1, 28))
        b = (rnd.randint(1000, 9999), rnd.randint(1, 12), rnd.randint(1, 28))
        sa, sb = "%04d-%02d-%02d" % a, "%04d-%02d-%02d" % b
        n += 1
        if (sa < sb) != (a < b) or (sa <= sb) != (a[0] * 10000 + a[1] * 100 + a[2] <= b[0] * 10000 + b[1] * 100 + b[2]):
            bad.append((a, b))
    return {"name": "ISO date strings: string order = date order = integer key order (4-digit years)", "ok": not bad,
            "cases": n, "detail": repr(bad[:3])}


def numpy_io(tier, seed):
    import subprocess
    p = subprocess.run(["/venv/bin/python", os.path.join(os.path.dirname(os.path.dirname(os.path.abspath(__file__))), "native", "validate_numpyio.py"), tier, str(seed)],
                       capture_output=True, text=True, cwd="/repo", env=dict(os.environ, PYTHONPATH=os.environ.get("PYVC_REPO", "/repo"), PYTHONWARNINGS="ignore"))
    lines = [l for l in p.stdout.splitlines() if l.startswith("{")]
    if p.returncode != 0 or not lines:
        return {"name": "numpy io", "ok": False, "cases": 0, "detail": (p.stderr or p.stdout)[-500:]}
    return json.loads(lines[-1])


def numpy_axioms(tier, seed):
    """runs native/validate_numpy.py under /venv/bin/python (numpy lives there)"""
    import subprocess
    p = subprocess.run(["/venv/bin/python", os.path.join(os.path.dirname(os.path.dirname(os.path.abspath(__file__))), "native", "validate_numpy.py"), tier, str(seed)],
                       capture_output=True, text=True)
    lines = [l for l in p.stdout.splitlines() if l.startswith("{")]
    if p.returncode != 0 or not lines:
        return {"name": "numpy axioms", "ok": False, "cases": 0, "detail": (p.stderr or p.stdout)[-500:]}
    return json.loads(lines[-1])


def regex_matcher(tier, seed):
    """the derivative matcher against the re module, on the patterns read from the real source"""
    import ast
    import random
    import re
    sys.path.insert(0, os.path.dirname(os.path.dirname(os.path.abspath(__file__))))
    from pyvc import fmtterms
    repo = os.environ.get("PYVC_REPO", "/repo")
    tree = ast.parse(open(os.path.join(repo, "openfisca_core", "types.py")).read())
    pats = {}
    for st in tree.body:
        if isinstance(st, ast.Assign) and isinstance(st.value, ast.Call) and ast.unparse(st.value.func) == "re.compile":
            pats[st.targets[0].id] = st.value.args[0].value
    rnd = random.Random(seed)
    texts = set()
    for y in ("2014", "0999", "9999", "201", "20145"):
        texts.add(y)
        for m in range(0, 100):
            texts.add(f"{y}-{m:02d}")
            texts.add(f"{y}-W{m:02d}")
            for d in (0, 1, 7, 8, 9):
                texts.add(f"{y}-W{m:02d}-{d}")
        for m in (0, 1, 9, 10, 12, 13):
            for d in range(0, 100):
                texts.add(f"{y}-{m:02d}-{d:02d}")
        for d in range(0, 10):
            texts.add(f"{y}-{d}")
    alpha = "0123456789-W:w "
    for _ in range(5000 if tier == "quick" else 200000):
        texts.add("".join(rnd.choice(alpha) for _ in range(rnd.randint(0, 11))))
    bad, cases = [], 0
    for name, pat in pats.items():
        rx = re.compile(pat)
        for t in texts:
            cases += 1
            try:
                got = fmtterms.match_concrete(pat, t)
            except Exception as e:
                bad.append((name, t, repr(e)))
                break
            if got != bool(rx.match(t)):
                bad.append((name, t, got))
    return {"name": "regex derivative matcher vs re on " + ", ".join(sorted(pats)), "ok": not bad and len(pats) >= 2, "cases": cases, "detail": repr(bad[:5])}


if __name__ == "__main__":
    which, tier, seed = sys.argv[1], sys.argv[2], int(sys.argv[3])
    fn = {"calendar": calendar_vs_datetime, "z3cal": z3_vs_calmodel, "extmodel": extmodel_vs_calmodel, "isoorder": iso_order, "numpy": numpy_axioms, "numpyio": numpy_io, "regex": regex_matcher}[which]
    print(json.dumps(fn(tier, seed)))
