"""Strings: concrete python strs, ISO-date strings with an order embedding, and format terms (DESIGN 2.5)."""
from __future__ import annotations

import z3

from . import smt
from . import builtins_ as B
from .values import (Builtin, ClassVal, EnumMember, ExcVal, FmtStr, IsoStr, ListVal, Obj, Opaque, Sym, TupleVal,
                     Unsupported)


class Dec:
    """Decimal rendering of an integer term, zero padded to `width` (None = no padding)."""
    __slots__ = ("e", "width")

    def __init__(self, e, width=None):
        self.e = e
        self.width = width

    def __repr__(self):
        return f"Dec({self.e},{self.width})"


def to_str(I, ctx, val, spec=None, conv=-1):
    if isinstance(val, str):
        if spec:
            return format(val, spec)
        return repr(val) if conv == ord("r") else val
    if isinstance(val, bool):
        return str(val)
    if isinstance(val, int):
        return format(val, spec) if spec else str(val)
    if isinstance(val, float):
        return format(val, spec) if spec else str(val)
    if val is None:
        return "None"
    if isinstance(val, EnumMember):
        if conv == ord("r"):
            return f"<{val.cls.name}.{val.name}: {val.value!r}>"
        m, owner = val.cls.lookup("__str__")
        if m is not None and not isinstance(m, Builtin) and hasattr(m, "node"):
            return I.call(ctx, m, [val], {})
        if val.cls.ns.get("__strenum__"):
            return str(val.value)
        return f"{val.cls.name}.{val.name}"
    if isinstance(val, Sym):
        if val.kind == "int":
            w = None
            if spec:
                if spec.endswith("d") and spec[:-1].startswith("0") and spec[1:-1].isdigit():
                    w = int(spec[1:-1])
                elif spec != "d":
                    return FmtStr([("fmt", val, spec)])
            return FmtStr([Dec(val.e, w)])
        return FmtStr([("str", val)])
    if isinstance(val, (FmtStr, IsoStr)):
        return val
    if isinstance(val, (Obj, TupleVal)) and getattr(val, "cls", None) is not None:
        name = "__repr__" if conv == ord("r") else "__str__"
        m, owner = val.cls.lookup(name)
        if m is None and name == "__str__":
            m, owner = val.cls.lookup("__repr__")
        if m is not None and hasattr(m, "node"):
            return I.call(ctx, m, [val], {})
        if isinstance(m, Builtin) and m.fn is not None:
            return I.call(ctx, m, [val], {})
    if isinstance(val, ExcVal):
        return FmtStr([("exc", val)])
    from .values import Opaque
    if isinstance(val, Opaque) and val.attrs.get("str") is not None and not spec and conv != ord("r"):
        return val.attrs["str"](ctx)       # a token with a declared text form
    return FmtStr([("str", val)])


def iso_key(s):
    """order-embedding integer of an ISO 'YYYY-MM-DD' string"""
    if isinstance(s, IsoStr):
        return B._z(s.key)
    if isinstance(s, str):
        parts = s.split("-")
        if len(parts) == 3 and len(parts[0]) == 4 and len(parts[1]) == 2 and len(parts[2]) == 2 and all(p.isdigit() for p in parts):
            return z3.IntVal(int(parts[0]) * 10000 + int(parts[1]) * 100 + int(parts[2]))
    raise Unsupported(f"not a full ISO date string: {s!r}")


def str_eq(I, ctx, a, b):
    if isinstance(a, IsoStr) or isinstance(b, IsoStr):
        try:
            return smt.simp(iso_key(a) == iso_key(b))
        except Unsupported:
            return False
    from . import fmtterms
    return fmtterms.fmt_eq(I, ctx, a, b)


def str_len(I, ctx, s):
    if isinstance(s, IsoStr):
        return 10
    from . import fmtterms
    return fmtterms.fmt_len(I, ctx, s)


def parse_int(I, ctx, v):
    if isinstance(v, str):
        try:
            return int(v)
        except ValueError:
            raise I.raise_exc("ValueError")
    from . import fmtterms
    return fmtterms.parse_int(I, ctx, v)


def str_method(I, ctx, s, name):
    def B_(fn):
        return Builtin("str." + name, fn)
    if isinstance(s, str):
        if name in ("upper", "lower", "strip", "lstrip", "rstrip", "title", "capitalize", "isdigit", "isidentifier",
                    "isalpha", "isnumeric"):
            return B_(lambda ctx, *a: getattr(s, name)(*a))
        if name in ("startswith", "endswith"):
            def sw(ctx, p, *a):
                p = B.enum_str(p)
                if isinstance(p, TupleVal):
                    p = tuple(B.enum_str(x) for x in p.items)
                return getattr(s, name)(p, *a)
            return B_(sw)
        if name in ("split", "rsplit"):
            return B_(lambda ctx, *a: ListVal(getattr(s, name)(*a)))
        if name == "splitlines":
            return B_(lambda ctx: ListVal(s.splitlines()))
        if name == "join":
            def join(ctx, it):
                parts = [B.enum_str(x) for x in I.iterate(ctx, it)]
                if all(isinstance(p, str) for p in parts):
                    return s.join(parts)
                out = []
                for i, p in enumerate(parts):
                    if i:
                        out.append(s)
                    out.extend(p.parts if isinstance(p, FmtStr) else [p])
                return FmtStr(out)
            return B_(join)
        if name == "format":
            def fmt(ctx, *a, **k):
                if all(isinstance(x, (str, int, float)) for x in list(a) + list(k.values())):
                    return s.format(*a, **k)
                return FmtStr([("format", s, a, k)])
            return B_(fmt)
        if name == "replace":
            return B_(lambda ctx, a, b, *c: s.replace(a, b, *c))
        if name == "find":
            return B_(lambda ctx, a: s.find(a))
        if name == "count":
            return B_(lambda ctx, a: s.count(a))
        if name == "encode":
            return B_(lambda ctx, *a: s)
        if name == "__contains__":
            return B_(lambda ctx, x: B.enum_str(x) in s if isinstance(B.enum_str(x), str) else False)
        if name == "__eq__":
            return B_(lambda ctx, x: B.eq_formula(I, ctx, s, x))
        if name == "__hash__":
            return B_(lambda ctx: hash(s))
        if name == "__len__":
            return B_(lambda ctx: len(s))
        return None
    from . import fmtterms
    return fmtterms.str_method(I, ctx, s, name)


DECSTR_LT = z3.Function("DECSTR_LT", z3.IntSort(), z3.IntSort(), z3.BoolSort())   # str(a) < str(b) for naturals a, b


def _segments(v):
    """a format string as a list of characters and Dec terms (unpadded decimal numerals of non-negative integers)"""
    out = []
    for p in (v.parts if isinstance(v, FmtStr) else [v]):
        if isinstance(p, str):
            out.extend(p)
        elif isinstance(p, Dec) and p.width is None:
            out.append(p)
        elif isinstance(p, int) and not isinstance(p, bool) and p >= 0:
            out.extend(str(p))
        else:
            raise Unsupported(f"string order on a format string with part {p!r}")
    return out


def fmt_lt(I, ctx, a, b):
    """a < b in Python's string order, for strings with the same literal prefix followed by one final decimal numeral each
    (what sort keys such as f"{weight}_{size}" look like). The order of two numerals is the uninterpreted DECSTR_LT with the
    facts that are true of it: irreflexive, total on distinct numbers, and the numeric order when both have as many digits."""
    import z3 as _z3
    sa, sb = _segments(a), _segments(b)
    i = 0
    while i < len(sa) and i < len(sb) and isinstance(sa[i], str) and isinstance(sb[i], str):
        if sa[i] != sb[i]:
            return _z3.BoolVal(sa[i] < sb[i])
        i += 1
    ra, rb = sa[i:], sb[i:]
    if not ra or not rb:
        return _z3.BoolVal(len(ra) < len(rb))
    if len(ra) == 1 and len(rb) == 1 and isinstance(ra[0], Dec) and isinstance(rb[0], Dec):
        x, y = ra[0].e, rb[0].e
        ctx.assumed_ext.add("string order of decimal numerals: irreflexive, total, numeric order for numerals of equal length (other lengths: uninterpreted)")
        same_len = _z3.Or(*[_z3.And(lo <= x, x < hi, lo <= y, y < hi) for lo, hi in ((0, 10), (10, 100), (100, 1000), (1000, 10000), (10000, 100000))])
        ctx.assume(_z3.Implies(_z3.And(x >= 0, y >= 0), _z3.And(_z3.Implies(x == y, _z3.Not(DECSTR_LT(x, y))),
                                                              _z3.Implies(x != y, DECSTR_LT(x, y) != DECSTR_LT(y, x)),
                                                              _z3.Implies(same_len, DECSTR_LT(x, y) == (x < y)))))
        return DECSTR_LT(x, y)
    raise Unsupported(f"string order on {a!r} / {b!r}")
