"""Calendar theory (DESIGN 3.1): opaque spec functions OM / DIM with lemma instances, and the lemma
library proved from the closed forms."""
from __future__ import annotations

import z3

from . import smt

OM = z3.Function("OM", z3.IntSort(), z3.IntSort())      # ordinal of first day of month index t
DIM = z3.Function("DIM", z3.IntSort(), z3.IntSort())    # days in month index t

T_MIN, T_MAX = 12, 12 * 10000 + 11   # month indices of years 1..10000 (10000 only as an exclusive end)


def tidx(y, m):
    return 12 * y + m - 1


def year_of(t):
    return t / 12


def month_of(t):
    return t % 12 + 1


def leap(y):
    return z3.And(y % 4 == 0, z3.Or(y % 100 != 0, y % 400 == 0))


def dimf(t):
    m = t % 12
    return z3.If(m == 1, z3.If(leap(t / 12), 29, 28),
                 z3.If(z3.Or(m == 3, m == 5, m == 8, m == 10), 30, 31))


ORD3 = z3.Function("ORD3", z3.IntSort(), z3.IntSort(), z3.IntSort(), z3.IntSort())   # ordinal of a (y, m, d) triple


def _iv(x):
    return z3.IntVal(x) if isinstance(x, int) else x


def ordinal(y, m, d):
    return ORD3(_iv(y), _iv(m), _iv(d))


def ordinal_def(y, m, d):
    return OM(tidx(y, m)) + d - 1


def iso_key(y, m, d):
    """order embedding of the ISO text YYYY-MM-DD (4-digit years)"""
    return y * 10000 + m * 100 + d


def lex_lt(a, b):
    return z3.Or(a[0] < b[0], z3.And(a[0] == b[0], z3.Or(a[1] < b[1], z3.And(a[1] == b[1], a[2] < b[2]))))


def valid(y, m, d):
    return z3.And(y >= 1, y <= 9999, m >= 1, m <= 12, d >= 1, d <= DIM(tidx(y, m)))


def weekday0(o):
    return (o + 3) % 7


def om_closed(t):
    """Hinnant days_from_civil for day 1 of month index t (z3 term)."""
    y = t / 12
    m = t % 12 + 1
    y2 = z3.If(m <= 2, y - 1, y)
    era = y2 / 400
    yoe = y2 - era * 400
    mp = z3.If(m > 2, m - 3, m + 9)
    doy = (153 * mp + 2) / 5
    doe = yoe * 365 + yoe / 4 - yoe / 100 + doy
    return era * 146097 + doe - 719468


def _collect(e, om_args, dim_args, seen, ord_apps=None):
    if e.get_id() in seen:
        return
    seen.add(e.get_id())
    if z3.is_app(e):
        d = e.decl()
        if ord_apps is not None and d.eq(ORD3):
            ord_apps[e.get_id()] = e
        if d.eq(OM):
            om_args[e.arg(0).get_id()] = e.arg(0)
        elif d.eq(DIM):
            dim_args[e.arg(0).get_id()] = e.arg(0)
        for c in e.children():
            _collect(c, om_args, dim_args, seen, ord_apps)
    elif z3.is_quantifier(e):
        _collect(e.body(), om_args, dim_args, seen, ord_apps)


_scan_cache = {}
_ordpair_cache = {}
_ompair_cache = {}
_term_cache = {}


def _scan(f):
    k = f.get_id()
    r = _scan_cache.get(k)
    if r is None:
        om_args, dim_args, ord_apps = {}, {}, {}
        _collect(f, om_args, dim_args, set(), ord_apps)
        r = (f, om_args, dim_args, ord_apps)
        _scan_cache[k] = r
    return r


def _ordpair(a, b):
    k = (a.get_id(), b.get_id())
    r = _ordpair_cache.get(k)
    if r is None:
        ta = (a.arg(0), a.arg(1), a.arg(2))
        tb = (b.arg(0), b.arg(1), b.arg(2))
        f = z3.Implies(z3.And(valid(*ta), valid(*tb)),
                       z3.And(lex_lt(ta, tb) == (a < b), lex_lt(tb, ta) == (b < a),
                              (iso_key(*ta) < iso_key(*tb)) == (a < b), (iso_key(*tb) < iso_key(*ta)) == (b < a)))
        r = (a, b, f)
        _ordpair_cache[k] = r
    return r[2]


def _ompair(a, b):
    k = (a.get_id(), b.get_id())
    r = _ompair_cache.get(k)
    if r is not None:
        return r[2]
    out = []
    diff = z3.simplify(b - a)
    if z3.is_int_value(diff):
        kk = diff.as_long()
        x, y = a, b
        if kk < 0:
            x, y, kk = b, a, -kk
        if kk == 1:
            out.append(OM(y) == OM(x) + DIM(x))
        elif kk == 12:
            out.append(OM(y) == OM(x) + z3.If(leapspan(x), 366, 365))
            out.append(OM(x) + DIM(x) <= OM(y))
        elif kk != 0:
            out.append(z3.And(OM(x) + DIM(x) <= OM(y), OM(y) - OM(x) <= 31 * kk, OM(y) - OM(x) >= 28 * kk))
    else:
        for x, y in ((a, b), (b, a)):
            out.append(z3.Implies(x < y, z3.And(OM(x) + DIM(x) <= OM(y), OM(y) - OM(x) <= 31 * (y - x))))
            out.append(z3.Implies(y == x + 1, OM(y) == OM(x) + DIM(x)))
            out.append(z3.Implies(y == x + 12, OM(y) == OM(x) + z3.If(leapspan(x), 366, 365)))
    _ompair_cache[k] = (a, b, out)
    return out


def _termfact(kind, a):
    k = (kind, a.get_id())
    r = _term_cache.get(k)
    if r is None:
        if kind == "dim":
            f = DIM(a) == dimf(a)
        else:
            f = a == ordinal_def(a.arg(0), a.arg(1), a.arg(2))
        r = (a, f)
        _term_cache[k] = r
    return r[1]


def facts(formulas):
    om_args, dim_args, ord_apps = {}, {}, {}
    for f in formulas:
        _, o, d, r = _scan(f)
        om_args.update(o)
        dim_args.update(d)
        ord_apps.update(r)
    pre = []
    apps = [a for a in ord_apps.values() if not _has_var(a)]
    apps.sort(key=lambda e: e.get_id())
    for a in apps:
        pre.append(_termfact("ord", a))
    for i in range(len(apps)):
        for j in range(i + 1, len(apps)):
            pre.append(_ordpair(apps[i], apps[j]))
    for f in pre:
        _, o, d, r = _scan(f)
        om_args.update(o)
        dim_args.update(d)
    om_l = [a for a in om_args.values() if not _has_var(a)]
    om_l.sort(key=lambda e: e.get_id())
    dim_l = {a.get_id(): a for a in dim_args.values() if not _has_var(a)}
    out = list(pre)
    for a in om_l:
        dim_l.setdefault(a.get_id(), a)
    for a in dim_l.values():
        out.append(_termfact("dim", a))
    n = len(om_l)
    for i in range(n):
        for j in range(i + 1, n):
            out.extend(_ompair(om_l[i], om_l[j]))
    # applications to a numeral: the value itself (the closed form evaluated in Python - pyvc/calmodel.py, the mirror of the closed
    # form that the lemma library is proved from and that is validated against datetime on every run)
    from . import calmodel
    for a in om_l:
        v = z3.simplify(a)
        if z3.is_int_value(v) and T_MIN <= v.as_long() <= T_MAX:
            out.append(OM(a) == calmodel.om(v.as_long()))
    return out


def leapspan(a):
    """the 12 months starting at month index a contain a 29 February"""
    y = a / 12
    m = a % 12
    return z3.If(m <= 1, leap(y), leap(y + 1))


def _has_var(e):
    if z3.is_var(e):
        return True
    return any(_has_var(c) for c in e.children())


smt.register_theory(facts)


# ----------------------------------------------------------------------
# lemma library: each returns (name, hyps, goal) proved WITHOUT the theory's instances
# ----------------------------------------------------------------------
def lemma_library():
    t, a, b = z3.Ints("t a b")
    rng = lambda x: z3.And(x >= T_MIN - 12, x <= T_MAX + 12)
    L = []
    # L_dim: closed form successor = dimf
    L.append(("cal.dim_successor", [rng(t)], om_closed(t + 1) - om_closed(t) == dimf(t)))
    L.append(("cal.dim_range", [rng(t)], z3.And(dimf(t) >= 28, dimf(t) <= 31)))
    # year span lemma from closed form
    L.append(("cal.year_span", [rng(t)], om_closed(t + 12) - om_closed(t) == z3.If(leapspan(t), 366, 365)))
    # monotonicity by induction on b, with OM opaque and the successor lemma as only fact
    succ = lambda x: OM(x + 1) == OM(x) + DIM(x)
    dpos = lambda x: z3.And(DIM(x) >= 28, DIM(x) <= 31)
    P = lambda x, y: z3.Implies(x < y, z3.And(OM(x) + DIM(x) <= OM(y), OM(y) - OM(x) <= 31 * (y - x)))
    L.append(("cal.mono.base", [succ(a), dpos(a)], P(a, a + 1)))
    L.append(("cal.mono.step", [succ(a), succ(b), dpos(a), dpos(b), P(a, b)], P(a, b + 1)))
    # lexicographic order of valid triples = order of ordinals (from the monotonicity instances only)
    ya, ma, da, yb, mb, db = z3.Ints("ya ma da yb mb db")
    A, Bt = (ya, ma, da), (yb, mb, db)
    ta, tb = tidx(ya, ma), tidx(yb, mb)
    vd = lambda y, m, d: z3.And(m >= 1, m <= 12, d >= 1, d <= DIM(tidx(y, m)))
    inst = [z3.Implies(ta < tb, OM(ta) + DIM(ta) <= OM(tb)), z3.Implies(tb < ta, OM(tb) + DIM(tb) <= OM(ta))]
    L.append(("cal.lex_order_is_ordinal_order", inst + [vd(*A), vd(*Bt)],
              z3.And(lex_lt(A, Bt) == (ordinal_def(*A) < ordinal_def(*Bt)),
                     lex_lt(Bt, A) == (ordinal_def(*Bt) < ordinal_def(*A)))))
    L.append(("cal.iso_key_order_is_lex_order", [vd(*A), vd(*Bt), DIM(ta) <= 31, DIM(tb) <= 31],
              lex_lt(A, Bt) == (iso_key(*A) < iso_key(*Bt))))
    # epoch anchor: 1970-01 is month index 23640 and has ordinal 0
    L.append(("cal.epoch", [], om_closed(z3.IntVal(12 * 1970)) == 0))
    return L


def prove_library(timeout_ms=60000):
    """Proves each lemma with theory instantiation disabled. Returns list of (name, verdict, seconds)."""
    import time
    res = []
    for name, hyps, goal in lemma_library():
        s = z3.Solver()
        s.set("timeout", timeout_ms)
        for h in hyps:
            s.add(h)
        s.add(z3.Not(goal))
        t0 = time.time()
        r = s.check()
        dt = time.time() - t0
        verdict = "proved" if r == z3.unsat else ("failed" if r == z3.sat else "unknown")
        backend = "z3"
        if verdict == "unknown":
            c = smt.run_cvc5(smt.to_smt2(hyps, goal), timeout_s=120)
            if c == "unsat":
                verdict, backend = "proved", "cvc5"
            elif c == "sat":
                verdict, backend = "failed", "cvc5"
        res.append((name, verdict, backend, dt))
    return res
