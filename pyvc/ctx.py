"""Path state and path exploration by deterministic re-execution (DESIGN 2.4)."""
from __future__ import annotations

import z3

from . import smt
from .values import PyvcError


class PathEnd(Exception):
    """The current path stops here (infeasible, or end of an arbitrary loop iteration)."""


class Obligation:
    __slots__ = ("name", "hyps", "goal", "where", "kind")

    def __init__(self, name, hyps, goal, where="", kind="assert"):
        self.name = name
        self.hyps = hyps
        self.goal = goal
        self.where = where
        self.kind = kind


class Ctx:
    """One execution path. Forks are resolved by a decision prefix; new decision points
    record the alternative so the explorer can re-execute with a longer prefix."""

    def __init__(self, prefix=()):
        self.prefix = list(prefix)
        self.cursor = 0
        self.trace = []          # (choice, n_alternatives, forced)
        self.pc = []             # branch conditions
        self.facts = []          # assumed facts (requires, callee ensures, invariants)
        self.obligations = []
        self.counter = {}
        self.ghost = {}
        self.notes = []          # inlined functions, assumed contracts used ...
        self.used_contracts = set()
        self.inlined = set()
        self.assumed_ext = set()
        self.bounded = []
        self.depth = 0
        self.where = ""

    # ---- fresh symbols -------------------------------------------------
    def fresh_name(self, base):
        n = self.counter.get(base, 0)
        self.counter[base] = n + 1
        return f"{base}!{n}"

    def fresh_int(self, base="i"):
        return z3.Int(self.fresh_name(base))

    def fresh_bool(self, base="b"):
        return z3.Bool(self.fresh_name(base))

    def fresh_real(self, base="r"):
        return z3.Real(self.fresh_name(base))

    def fresh_const(self, base, sort):
        return z3.Const(self.fresh_name(base), sort)

    # ---- hypotheses ----------------------------------------------------
    def hyps(self):
        return self.pc + self.facts

    def assume(self, f):
        if isinstance(f, bool):
            f = z3.BoolVal(f)
        f = smt.simp(f)
        if smt.is_true(f):
            return
        if smt.is_false(f):
            raise PathEnd()
        self.facts.append(f)

    def oblige(self, name, goal, kind="assert"):
        if isinstance(goal, bool):
            goal = z3.BoolVal(goal)
        self.obligations.append(Obligation(name, self.hyps(), goal, self.where, kind))
        g = smt.simp(goal)
        if not smt.is_true(g) and not smt.is_false(g):
            self.facts.append(g)

    def apply_lemma(self, name, premises, conclusion):
        """use of a lemma schema proved separately (the contract module's lemma library): every premise of the instance is an
        obligation here; the conclusion of the instance is then available"""
        for pname, f in premises:
            self.obligations.append(Obligation(f"lemma.{name}.premise.{pname}", self.hyps(), f if not isinstance(f, bool) else z3.BoolVal(f), self.where, "lemma-premise"))
        self.used_lemmas = getattr(self, "used_lemmas", set()) | {name}
        self.assume(conclusion)

    # ---- forking -------------------------------------------------------
    def choose(self, conds):
        """conds: list of z3 Bool guards (mutually exclusive or not); returns the index taken."""
        n = len(conds)
        if self.cursor < len(self.prefix):
            k = self.prefix[self.cursor]
            self.cursor += 1
            self.trace.append((k, None, True))
            self._take(conds[k])
            return k
        feas = []
        for k, c in enumerate(conds):
            c = smt.simp(c) if not isinstance(c, bool) else z3.BoolVal(c)
            if smt.is_false(c):
                continue
            if smt.is_true(c) or smt.feasible(self.hyps(), c):
                feas.append(k)
        if not feas:
            raise PathEnd()
        k = feas[0]
        self.trace.append((k, feas[1:], len(feas) == 1))
        self.cursor += 1
        self._take(conds[k])
        return k

    def _take(self, c):
        if isinstance(c, bool):
            c = z3.BoolVal(c)
        c = smt.simp(c)
        if not smt.is_true(c):
            self.pc.append(c)

    def branch(self, cond):
        if isinstance(cond, bool):
            return cond
        cond = smt.simp(cond)
        if smt.is_true(cond):
            return True
        if smt.is_false(cond):
            return False
        return self.choose([cond, z3.Not(cond)]) == 0


def explore(run, max_paths=20000):
    """run(ctx) executes one path. Yields (ctx, outcome) for each completed path.
    outcome is whatever run returns; PathEnd paths yield outcome None."""
    work = [[]]
    n = 0
    while work:
        prefix = work.pop()
        ctx = Ctx(prefix)
        try:
            out = run(ctx)
        except PathEnd:
            out = None
        n += 1
        if n > max_paths:
            raise PyvcError("path explosion: more than %d paths" % max_paths)
        # schedule alternatives discovered beyond the prefix
        choices = [t[0] for t in ctx.trace]
        for pos in range(len(prefix), len(ctx.trace)):
            k, alts, forced = ctx.trace[pos]
            if alts:
                for a in alts:
                    work.append(choices[:pos] + [a])
        yield ctx, out
