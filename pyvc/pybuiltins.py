"""Models of python builtins and of the methods of builtin container types."""
from __future__ import annotations

import ast

import z3

from . import smt
from . import builtins_ as B
from .values import (NOT_IMPLEMENTED, BoundMethod, Builtin, CachedFunc, ClassMethodVal, ClassVal, DictVal,
                     DispatchVal, EnumMember, ExcVal, FmtStr, FuncVal, IsoStr, ListVal, ModuleVal, Obj, Opaque,
                     PropertyVal, PyvcError, SeqVal, SetVal, StaticMethodVal, Sym, SymList, TupleVal, Unsupported)


class ObjDictView:
    """obj.__dict__ (live view)."""

    def __init__(self, obj):
        self.obj = obj


class CodeView:
    def __init__(self, f):
        self.f = f


EXC_TREE = {
    "BaseException": None, "Exception": "BaseException", "ArithmeticError": "Exception",
    "ZeroDivisionError": "ArithmeticError", "AssertionError": "Exception", "AttributeError": "Exception",
    "LookupError": "Exception", "IndexError": "LookupError", "KeyError": "LookupError",
    "NameError": "Exception", "NotImplementedError": "RuntimeError", "RuntimeError": "Exception",
    "RecursionError": "RuntimeError", "StopIteration": "Exception", "TypeError": "Exception",
    "ValueError": "Exception", "OSError": "Exception", "FileNotFoundError": "OSError", "IOError": "OSError",
    "ImportError": "Exception", "ModuleNotFoundError": "ImportError", "Warning": "Exception",
    "UserWarning": "Warning", "DeprecationWarning": "Warning", "OverflowError": "ArithmeticError",
    "UnicodeError": "ValueError", "KeyboardInterrupt": "BaseException", "FutureWarning": "Warning",
}


def install(I):
    obj = ClassVal("object", None, [], {}, external="object")
    obj._mro = [obj]
    I.builtins["object"] = obj

    def mk(name, ext=None, bases=None):
        c = ClassVal(name, None, bases or [obj], {}, external=ext or name)
        I.builtins[name] = c
        return c
    for n in ("tuple", "list", "dict", "set", "frozenset", "str", "int", "float", "bool", "type", "bytes", "complex"):
        mk(n)
    I.builtins["bool"].bases = [I.builtins["int"]]
    I.builtins["bool"]._mro = None
    def mkexc(name):
        if name in I.exc_classes:
            return I.exc_classes[name]
        parent = EXC_TREE[name]
        c = ClassVal(name, None, [mkexc(parent) if parent else obj], {}, external="exc:" + name)
        I.builtins[name] = c
        I.exc_classes[name] = c
        return c
    for name in EXC_TREE:
        mkexc(name)
    I.builtins["NotImplemented"] = NOT_IMPLEMENTED
    I.builtins["Ellipsis"] = B.ELLIPSIS if hasattr(B, "ELLIPSIS") else None
    I.builtins["__debug__"] = True
    I.builtins["__name__"] = "__pyvc__"

    def reg(name):
        def deco(fn):
            I.builtins[name] = Builtin(name, lambda ctx, *a, **k: fn(I, ctx, *a, **k))
            return fn
        return deco

    @reg("len")
    def _len(I, ctx, v):
        return py_len(I, ctx, v)

    @reg("isinstance")
    def _isinstance(I, ctx, v, c):
        return py_isinstance(I, ctx, v, c)

    @reg("issubclass")
    def _issubclass(I, ctx, a, c):
        cs = c.items if isinstance(c, TupleVal) else [c]
        return isinstance(a, ClassVal) and any(isinstance(x, ClassVal) and a.is_subclass(x) for x in cs)

    @reg("range")
    def _range(I, ctx, *a):
        if all(isinstance(x, int) for x in a):
            return ListVal(list(range(*a)))
        if len(a) == 1:
            n = B.zint(a[0])
            n = smt.simp(z3.If(n < 0, z3.IntVal(0), n))
            return SeqVal(n, lambda i: B.wrap(B._z(i)), tag="range")
        if len(a) == 2:
            lo, hi = B.zint(a[0]), B.zint(a[1])
            n = smt.simp(z3.If(hi - lo < 0, z3.IntVal(0), hi - lo))
            return SeqVal(n, lambda i: B.wrap(lo + B._z(i)), tag="range")
        raise Unsupported("symbolic range with step")

    @reg("enumerate")
    def _enumerate(I, ctx, it, start=0):
        if I.is_symbolic_seq(it):
            seq = I.as_seq(ctx, it)
            return SeqVal(seq.length, lambda i: TupleVal([B.wrap(B._z(i) + start), seq.elem(i)]), tag="enumerate")
        return ListVal([TupleVal([i + start, x]) for i, x in enumerate(I.iterate(ctx, it))])

    @reg("zip")
    def _zip(I, ctx, *its, strict=False):
        if any(I.is_symbolic_seq(x) for x in its):
            seqs = [I.as_seq(ctx, x) for x in its]
            n = seqs[0].length
            for s in seqs[1:]:
                n = z3.If(B._z(s.length) < B._z(n), B._z(s.length), B._z(n))
            return SeqVal(smt.simp(B._z(n)), lambda i: TupleVal([s.elem(i) for s in seqs]), tag="zip")
        return ListVal([TupleVal(t) for t in zip(*[I.iterate(ctx, x) for x in its])])

    @reg("reversed")
    def _reversed(I, ctx, it):
        if I.is_symbolic_seq(it):
            seq = I.as_seq(ctx, it)
            n = seq.length
            return SeqVal(n, lambda i: seq.elem(smt.simp(n - 1 - B._z(i))), tag="reversed")
        return ListVal(list(reversed(I.iterate(ctx, it))))

    @reg("sorted")
    def _sorted(I, ctx, it, key=None, reverse=False):
        items = I.iterate(ctx, it)
        keys = [I.call(ctx, key, [x], {}) if key is not None else x for x in items]
        ks = [B.enum_str(k) for k in keys]
        if all(isinstance(k, (int, str, float)) for k in ks) or all(isinstance(k, TupleVal) and all(isinstance(e, (int, str)) for e in k.items) for k in ks):
            kk = [k.items if isinstance(k, TupleVal) else k for k in ks]
            order = sorted(range(len(items)), key=lambda i: kk[i], reverse=bool(reverse))
            return ListVal([items[i] for i in order])
        if len(items) <= 3 and not reverse:
            # a short list with symbolic keys: stable insertion sort, one path per outcome of the comparisons
            out = []
            for x, kx in zip(items, keys):
                pos = len(out)
                for j, (y, ky) in enumerate(out):
                    if I.truth(ctx, I.compare(ctx, ast.Lt(), kx, ky)):
                        pos = j
                        break
                out.insert(pos, (x, kx))
            return ListVal([x for x, _ in out])
        raise Unsupported(f"sorted() over symbolic keys at {ctx.where} (needs a contract-level model)")

    @reg("sum")
    def _sum(I, ctx, it, start=0):
        hook = I.ext.get("__sum_hook__")
        if hook is not None:
            r = hook(I, ctx, it, start)
            if r is not NotImplemented:
                return r
        acc = start
        for x in I.iterate(ctx, it):
            acc = I.binop(ctx, ast.Add(), acc, x)
        return acc

    @reg("min")
    def _min(I, ctx, *a, key=None, default=None):
        return _minmax(I, ctx, a, key, ast.Lt())

    @reg("max")
    def _max(I, ctx, *a, key=None, default=None):
        return _minmax(I, ctx, a, key, ast.Gt())

    def _minmax(I, ctx, a, key, op):
        from . import nparr
        if len(a) == 1 and key is None and (isinstance(a[0], nparr.NArr) or I.is_symbolic_seq(a[0])) and I.is_symbolic_seq(a[0]) and isinstance(op, ast.Gt):
            seq = I.as_seq(ctx, a[0])
            return I.call(ctx, I.ext["numpy"]["max"], [nparr.NArr(seq.length, seq.elem, "int", "max-arg")], {})
        items = I.iterate(ctx, a[0]) if len(a) == 1 else list(a)
        if not items:
            raise I.raise_exc("ValueError")
        best = items[0]
        bk = I.call(ctx, key, [best], {}) if key else best
        for x in items[1:]:
            xk = I.call(ctx, key, [x], {}) if key else x
            if I.truth(ctx, I.compare(ctx, op, xk, bk)):
                best, bk = x, xk
        return best

    @reg("any")
    def _any(I, ctx, it):
        if I.is_symbolic_seq(it):
            seq = I.as_seq(ctx, it)
            j = z3.Int(ctx.fresh_name("j_any"))
            return B.wrap(z3.Exists([j], z3.And(j >= 0, j < seq.length, B.zbool(seq.elem(j)))))
        for x in I.iterate(ctx, it):
            if I.truth(ctx, x):
                return True
        return False

    @reg("all")
    def _all(I, ctx, it):
        if I.is_symbolic_seq(it):
            seq = I.as_seq(ctx, it)
            j = z3.Int(ctx.fresh_name("j_all"))
            return B.wrap(z3.ForAll([j], z3.Implies(z3.And(j >= 0, j < seq.length), B.zbool(seq.elem(j)))))
        for x in I.iterate(ctx, it):
            if not I.truth(ctx, x):
                return False
        return True

    @reg("abs")
    def _abs(I, ctx, v):
        if isinstance(v, Sym):
            if v.kind == "real":
                return B.wrap(z3.If(v.e < 0, -v.e, v.e))
            return B.wrap(z3.If(v.e < 0, -v.e, v.e))
        if isinstance(v, Opaque) and v.attrs.get("abs"):
            return v.attrs["abs"](ctx)
        return abs(v)

    @reg("getattr")
    def _getattr(I, ctx, o, name, *default):
        if not isinstance(name, str):
            raise Unsupported("getattr with symbolic name")
        try:
            return I.getattr(ctx, o, name)
        except ExcVal as e:
            if default and e.cls.is_subclass(I.exc_classes["AttributeError"]):
                return default[0]
            raise

    @reg("hasattr")
    def _hasattr(I, ctx, o, name):
        try:
            I.getattr(ctx, o, name)
            return True
        except ExcVal as e:
            if e.cls.is_subclass(I.exc_classes["AttributeError"]):
                return False
            raise

    @reg("setattr")
    def _setattr(I, ctx, o, name, v):
        name = B.enum_str(name)
        if not isinstance(name, str):
            raise Unsupported(f"setattr with symbolic name {name!r}")
        I.setattr(ctx, o, name, v)

    @reg("iter")
    def _iter(I, ctx, v):
        if I.is_symbolic_seq(v):
            return I.as_seq(ctx, v)
        return IterVal(I.iterate(ctx, v))

    @reg("next")
    def _next(I, ctx, it, *default):
        if isinstance(it, ListVal):
            it = IterVal(it.items)
        if isinstance(it, IterVal):
            if it.pos < len(it.items):
                it.pos += 1
                return it.items[it.pos - 1]
            if default:
                return default[0]
            raise I.raise_exc("StopIteration")
        if isinstance(it, SeqVal):
            # a generator over a sequence (generator expression, zip, ...): single pass - next() takes the first remaining element
            # and the object then stands for the rest
            n = B._z(it.length)
            if not ctx.branch(n > 0):
                if default:
                    return default[0]
                raise I.raise_exc("StopIteration")
            old = it.elem
            first = old(0)
            it.elem = (lambda i, old=old: old(smt.simp(B._z(i) + 1)))
            it.length = smt.simp(n - 1)
            return first
        raise Unsupported("next() on non-iterator")

    @reg("repr")
    def _repr(I, ctx, v):
        return I.to_str(ctx, v, None, conv=ord("r"))

    @reg("id")
    def _id(I, ctx, v):
        return id(v)

    @reg("hash")
    def _hash(I, ctx, v):
        return hash(I_hkey(v))

    @reg("callable")
    def _callable(I, ctx, v):
        return isinstance(v, (FuncVal, BoundMethod, Builtin, ClassVal, DispatchVal, CachedFunc))

    @reg("print")
    def _print(I, ctx, *a, **k):
        return None

    @reg("round")
    def _round(I, ctx, v, nd=None):
        if isinstance(v, (int, float)) and not isinstance(v, Sym):
            return round(v, nd) if nd is not None else round(v)
        if isinstance(v, Sym) and v.kind in ("real", "int") and (nd is None or isinstance(nd, int) or isinstance(nd, Sym)):
            # round(x, d) of a symbolic number: an unspecified function of (value, digits) - what is known about it is only that the
            # same arguments give the same result (so a clause that needs the unrounded value fails)
            ctx.assumed_ext.add("round(x, d): an uninterpreted function of (value, digits)")
            if v.kind == "int" and nd is None:
                return v
            f = z3.Function("PYROUND", z3.RealSort(), z3.IntSort(), z3.RealSort())
            d = z3.IntVal(0) if nd is None else (z3.IntVal(nd) if isinstance(nd, int) else B.zint(nd))
            return Sym(f(B.zreal(v), d))
        raise Unsupported("round() of symbolic value")

    @reg("vars")
    def _vars(I, ctx, o):
        return ObjDictView(o)

    @reg("divmod")
    def _divmod(I, ctx, a, b):
        return TupleVal([I.binop(ctx, ast.FloorDiv(), a, b), I.binop(ctx, ast.Mod(), a, b)])

    # constructors used as functions
    def tuple_new(ctx, *a):
        if not a:
            return TupleVal(())
        return TupleVal(I.iterate(ctx, a[0]))
    I.builtins["tuple"].ns["__call__"] = Builtin("tuple", tuple_new)

    def list_new(ctx, *a):
        if not a:
            return ListVal()
        if I.is_symbolic_seq(a[0]):
            return SymList(I.as_seq(ctx, a[0]))
        return ListVal(I.iterate(ctx, a[0]))
    I.builtins["list"].ns["__call__"] = Builtin("list", list_new)

    def dict_new(ctx, *a, **kw):
        d = DictVal()
        if a:
            src = a[0]
            if isinstance(src, DictVal):
                d.items.update(src.items)
                d.keyvals.update(src.keyvals)
            elif isinstance(src, ObjDictView):
                for k, v in src.obj.fields.items():
                    d.items[I_hkey(k)] = v
                    d.keyvals[I_hkey(k)] = k
            else:
                for p in I.iterate(ctx, src):
                    k, v = I.iterate(ctx, p)
                    d.items[I_hkey(k)] = v
                    d.keyvals[I_hkey(k)] = k
        for k, v in kw.items():
            d.items[I_hkey(k)] = v
            d.keyvals[I_hkey(k)] = k
        return d
    I.builtins["dict"].ns["__call__"] = Builtin("dict", dict_new)

    def set_new(ctx, *a):
        s = SetVal()
        if a:
            from . import nparr as _np
            if isinstance(a[0], _np.NArr) and not isinstance(a[0].n, int):
                # the set of the elements of an array of symbolic length: only what error-reporting code does with it
                def ga(ctx2, n):
                    if n in ("difference", "union", "intersection"):
                        return Builtin("set." + n, lambda ctx3, *o: Opaque(None, "set-of-array-elements", {"getattr": ga}))
                    if n == "pop":
                        return Builtin("set.pop", lambda ctx3: Opaque(None, "some-element", {}))
                    from .interp import _MISSING
                    return _MISSING
                return Opaque(None, "set-of-array-elements", {"getattr": ga})
            for v in I.iterate(ctx, a[0]):
                s.items[I_hkey(v)] = v
        return s
    I.builtins["set"].ns["__call__"] = Builtin("set", set_new)
    I.builtins["frozenset"].ns["__call__"] = Builtin("frozenset", set_new)

    def str_new(ctx, *a):
        if not a:
            return ""
        return I.to_str(ctx, a[0])
    I.builtins["str"].ns["__call__"] = Builtin("str", str_new)

    def int_new(ctx, *a):
        from . import strings
        if not a:
            return 0
        v = a[0]
        if isinstance(v, bool):
            return int(v)
        if isinstance(v, int):
            return v
        if isinstance(v, Sym):
            if v.kind == "int":
                return v
            if v.kind == "bool":
                return B.wrap(B.zint(v))
            raise Unsupported("int() of symbolic real")
        if isinstance(v, float):
            return int(v)
        return strings.parse_int(I, ctx, v)
    I.builtins["int"].ns["__call__"] = Builtin("int", int_new)

    def float_new(ctx, *a):
        if not a:
            return 0.0
        v = a[0]
        if isinstance(v, (int, float)) and not isinstance(v, bool):
            return float(v) if isinstance(v, float) else B.wrap(B.zreal(v)) if False else float(v)
        if isinstance(v, Sym):
            return Sym(B.zreal(v)) if v.kind != "real" else v
        if isinstance(v, str):
            if v.strip().lower() in ("inf", "+inf", "infinity", "+infinity"):
                # +infinity as a list element / comparison operand: an unspecified real constant; what is known about it is what the
                # contracts assume (it lies above every finite quantity they compare it with). Arithmetic on it is not modelled.
                ctx.assumed_ext.add("float('inf') is an unspecified real constant PLUS_INF; only comparisons with it are meaningful (it lies above "
                                    "every finite threshold, as the contracts assume); arithmetic on it is not modelled")
                return Sym(smt.PLUS_INF)
            try:
                return float(v)
            except ValueError:
                raise I.raise_exc("ValueError")
        raise Unsupported(f"float() of {v!r}")
    I.builtins["float"].ns["__call__"] = Builtin("float", float_new)

    def bool_new(ctx, *a):
        if not a:
            return False
        v = a[0]
        if isinstance(v, Sym):
            return B.wrap(B.zbool(v))
        return I.truth(ctx, v)
    I.builtins["bool"].ns["__call__"] = Builtin("bool", bool_new)

    def type_new(ctx, *a):
        if len(a) == 1:
            return py_type(I, ctx, a[0])
        name, bases, ns = a
        c = ClassVal(name, None, list(bases.items), {ns.keyvals[k]: v for k, v in ns.items.items()})
        return c
    I.builtins["type"].ns["__call__"] = Builtin("type", type_new)

    from . import externals
    externals.install(I)


def I_hkey(v):
    from .interp import hkey
    return hkey(v)


class MapItems:
    """.items() / .keys() view of a symbolic map (only usable in the filtered-copy comprehension idiom)"""

    def __init__(self, m, keys_only=False):
        self.m = m
        self.keys_only = keys_only


class IterVal:
    def __init__(self, items):
        self.items = list(items)
        self.pos = 0


def py_len(I, ctx, v):
    from . import nparr
    if isinstance(v, nparr.NArr):
        return B.wrap(B._z(v.n))
    if isinstance(v, (TupleVal, ListVal)):
        return len(v.items)
    if isinstance(v, (DictVal, SetVal)):
        return len(v.items)
    if isinstance(v, str):
        return len(v)
    if isinstance(v, SymList):
        return B.wrap(B._z(v.seq.length))
    if isinstance(v, SeqVal):
        return B.wrap(B._z(v.length))
    if isinstance(v, Obj):
        m, _ = v.cls.lookup("__len__")
        if m is not None:
            return I.call(ctx, m, [v], {})
    if isinstance(v, Opaque) and v.attrs.get("len"):
        return v.attrs["len"](ctx)
    if isinstance(v, ClassVal) and v.enum_members is not None:
        return len(v.enum_members)
    if isinstance(v, (FmtStr, IsoStr)):
        from . import strings
        return strings.str_len(I, ctx, v)
    if isinstance(v, Opaque) and str(v.tag).startswith("array:") and v.e is not None:
        # an array whose content is opaque: its length is an unspecified function of the array
        srt = v.e.sort()
        f = z3.Function("LEN_OF_" + srt.name(), srt, z3.IntSort())
        ctx.assume(f(v.e) >= 0)
        return B.wrap(f(v.e))
    raise Unsupported(f"len() of {v!r} at {ctx.where}")


def py_type(I, ctx, v):
    b = I.builtins
    if v is None:
        if "NoneType" not in b:
            b["NoneType"] = ClassVal("NoneType", None, [b["object"]], {}, external="NoneType")
        return b["NoneType"]
    if isinstance(v, (Obj, B.SymRec)):
        return v.cls
    from . import nparr
    if isinstance(v, nparr.NArr):
        return v.cls_override or I.ndarray_class
    if isinstance(v, TupleVal):
        return v.cls or b["tuple"]
    from .values import NpScalar
    if isinstance(v, NpScalar):
        return v.cls
    if isinstance(v, bool) or (isinstance(v, Sym) and v.kind == "bool"):
        return b["bool"]
    if isinstance(v, int) or (isinstance(v, Sym) and v.kind == "int"):
        return b["int"]
    if isinstance(v, float) or (isinstance(v, Sym) and v.kind == "real"):
        return b["float"]
    if isinstance(v, (str, FmtStr, IsoStr)):
        return b["str"]
    if isinstance(v, (ListVal, SymList)):
        return b["list"]
    if isinstance(v, DictVal):
        return b["dict"]
    if isinstance(v, SetVal):
        return b["set"]
    if isinstance(v, EnumMember):
        return v.cls
    if isinstance(v, ClassVal):
        return v.metaclass or b["type"]
    if isinstance(v, ExcVal):
        return v.cls
    if isinstance(v, Opaque) and v.attrs.get("cls"):
        return v.attrs["cls"]
    if isinstance(v, Opaque) and str(v.tag).startswith("array:") and getattr(I, "ndarray_class", None) is not None:
        return I.ndarray_class
    if isinstance(v, Opaque) and v.attrs.get("type_token"):
        return v.attrs["type_token"]()
    raise Unsupported(f"type() of {v!r}")


def py_isinstance(I, ctx, v, c):
    if isinstance(c, TupleVal):
        for x in c.items:
            r = py_isinstance(I, ctx, v, x)
            if r is True:
                return True
            if r is not False:
                if I.truth(ctx, r):
                    return True
        return False
    if not isinstance(c, ClassVal):
        if isinstance(c, Builtin) and c.attrs.get("isinstance"):
            return c.attrs["isinstance"](ctx, v)
        raise Unsupported(f"isinstance against {c!r} at {ctx.where}")
    # metaclass __instancecheck__ defined in the repo
    if c.metaclass is not None:
        ic, owner = c.metaclass.lookup("__instancecheck__")
        if isinstance(ic, FuncVal):
            return I.call(ctx, ic, [c, v], {})
    if c.ns.get("__instancecheck_model__"):
        return c.ns["__instancecheck_model__"](ctx, v)
    if v is None:
        return c.external == "object" or c.external == "NoneType"
    if isinstance(v, Opaque) and v.attrs.get("isinstance"):
        return v.attrs["isinstance"](ctx, c)
    if isinstance(v, B.OptVal):
        v = B.resolve_opt(I, ctx, v)
        return py_isinstance(I, ctx, v, c)
    t = py_type(I, ctx, v)
    if t.is_subclass(c):
        return True
    # str-like enum members are str instances
    if isinstance(v, EnumMember) and isinstance(v.value, str) and c is I.builtins["str"] and v.cls.ns.get("__strenum__"):
        return True
    # abstract collections
    if c.external in ("collections.abc.Sequence",):
        return isinstance(v, (TupleVal, ListVal, SymList, str, FmtStr, IsoStr))
    if c.external in ("collections.abc.Mapping", "collections.abc.MutableMapping"):
        return isinstance(v, DictVal)
    if c.external in ("collections.abc.Iterable",):
        return isinstance(v, (TupleVal, ListVal, SymList, str, DictVal, SetVal, SeqVal))
    return False


def annotation_matches(I, ctx, ann, v):
    last = ann.split(".")[-1].strip()
    b = I.builtins
    if last == "None":
        return v is None
    if last == "object":
        return True
    if last in ("int", "str", "float", "bool", "list", "tuple", "dict"):
        return py_isinstance(I, ctx, v, b[last]) is True
    if last == "date":
        return isinstance(v, Obj) and any(c.name in ("Date", "date") for c in v.cls.mro())
    t = None
    if isinstance(v, (Obj, TupleVal, B.SymRec)) and v.cls is not None:
        t = v.cls
    elif isinstance(v, EnumMember):
        t = v.cls
    if t is not None:
        return any(c.name == last for c in t.mro())
    return False


def annotation_rank(ann):
    last = ann.split(".")[-1].strip()
    return {"object": 0, "tuple": 1, "int": 2, "str": 2}.get(last, 3)


def builtin_new(I, ctx, cls, args, kwargs):
    """object creation for classes without a repo-defined __new__."""
    ext = [c for c in cls.mro() if c.external and c.external != "object"]
    if ext:
        e = ext[0].external
        if e == "tuple":
            items = I.iterate(ctx, args[0]) if args else []
            return TupleVal(items, cls)
        if e.startswith("exc:"):
            # exception instance: modelled as ExcVal carrying an Obj for attributes
            o = Obj(cls)
            ex = ExcVal(cls, tuple(args), obj=o)
            o.fields["__excval__"] = ex
            return o
        if e in ("dict",):
            o = Obj(cls)
            o.fields["__data__"] = DictVal()
            return o
        if e in ("str", "int", "float"):
            if cls.external:
                return I.call(ctx, cls.ns["__call__"], args, kwargs)
            return args[0] if args else ("" if e == "str" else 0)
        if e in ("list",):
            if cls.external:
                return I.call(ctx, cls.ns["__call__"], args, kwargs)
        c0 = ext[0]
        if "__call__" in c0.ns and cls is c0:
            return I.call(ctx, c0.ns["__call__"], args, kwargs)
        if "__new_model__" in c0.ns:
            return c0.ns["__new_model__"](ctx, cls, *args, **kwargs)
        if e in ("abc.ABC", "typing.Protocol", "typing.Generic", "typing.NamedTuple", "typing.TypedDict"):
            if e == "typing.NamedTuple":
                fields = [s.target.id for s in cls.node.body if isinstance(s, ast.AnnAssign)]
                vals = list(args) + [kwargs[f] for f in fields[len(args):]]
                return TupleVal(vals, cls)
            return Obj(cls)
        raise Unsupported(f"instantiation of external-based class {cls.name} ({e}) at {ctx.where}")
    return Obj(cls)


def class_attr(I, ctx, cls, name):
    if name == "__call__" and "__call__" in cls.ns:
        return cls.ns["__call__"]
    if cls.external and name in cls.ns:
        return cls.ns[name]
    if name == "__subclasses__":
        return None
    if name == "__new__":
        return Builtin(f"{cls.name}.__new__", lambda ctx, c, *a, **k: builtin_new(I, ctx, c, a, k))
    if name == "__init__":
        return Builtin("object.__init__", lambda ctx, *a, **k: None)
    if name in ("__doc__",):
        return None
    if name == "__qualname__":
        return cls.name
    return None


# ----------------------------------------------------------------------
# methods of builtin types
# ----------------------------------------------------------------------
def builtin_method(I, ctx, o, name, via_super=False):
    def B_(fn):
        return Builtin(name, fn)
    if isinstance(o, TupleVal):
        if name in ("__lt__", "__le__", "__gt__", "__ge__", "__eq__", "__ne__"):
            op = {"__lt__": ast.Lt, "__le__": ast.LtE, "__gt__": ast.Gt, "__ge__": ast.GtE, "__eq__": ast.Eq,
                  "__ne__": ast.NotEq}[name]()
            return B_(lambda ctx, other: B.builtin_compare(I, ctx, op, o, other) if isinstance(other, TupleVal) else NOT_IMPLEMENTED)
        if name == "__repr__":
            return B_(lambda ctx: FmtStr(["tuple-repr", o]))
        if name == "__hash__":
            return B_(lambda ctx: hash(I_hkey(o)))
        if name == "index":
            return B_(lambda ctx, x: list_index(I, ctx, o.items, x))
        if name == "count":
            return B_(lambda ctx, x: list_count(I, ctx, o.items, x))
        if name == "__getitem__":
            return B_(lambda ctx, k: B.getitem(I, ctx, TupleVal(o.items), k))
        if name == "__len__":
            return B_(lambda ctx: len(o.items))
        if name == "__iter__":
            return B_(lambda ctx: ListVal(o.items))
        if name == "_asdict" and o.cls is not None:
            def asdict(ctx):
                fields = [s.target.id for s in o.cls.node.body if isinstance(s, ast.AnnAssign)]
                d = DictVal()
                for f, v in zip(fields, o.items):
                    d.items[I_hkey(f)] = v
                    d.keyvals[I_hkey(f)] = f
                return d
            return B_(asdict)
        if o.cls is not None and o.cls.node is not None:
            fields = [s.target.id for s in o.cls.node.body if isinstance(s, ast.AnnAssign)]
            if name in fields and any(c.external == "typing.NamedTuple" for c in o.cls.mro()):
                return o.items[fields.index(name)]
        return None
    if isinstance(o, ListVal):
        return list_method(I, ctx, o, name)
    if isinstance(o, SymList):
        return symlist_method(I, ctx, o, name)
    if isinstance(o, SeqVal):
        return None
    if isinstance(o, B.MapVal):
        if name == "get":
            return B_(lambda ctx, k, d=None: B.map_get(I, ctx, o, k, d))
        if o.pairs is not None and name in ("items", "keys", "values"):
            if name == "items":
                return B_(lambda ctx: ListVal([TupleVal([k, v]) for k, v in o.pairs]))
            if name == "keys":
                return B_(lambda ctx: ListVal([k for k, v in o.pairs]))
            return B_(lambda ctx: ListVal([v for k, v in o.pairs]))
        if name == "items":
            return B_(lambda ctx: MapItems(o))
        if name == "keys":
            return B_(lambda ctx: MapItems(o, keys_only=True))
        if name == "__setitem__":
            return B_(lambda ctx, k, v: B.map_store(I, ctx, o, k, v))
        return None
    if isinstance(o, DictVal):
        return dict_method(I, ctx, o, name)
    if isinstance(o, ObjDictView):
        return objdict_method(I, ctx, o, name)
    if isinstance(o, SetVal):
        return set_method(I, ctx, o, name)
    if isinstance(o, (str, FmtStr, IsoStr)):
        from . import strings
        return strings.str_method(I, ctx, o, name)
    if isinstance(o, CodeView):
        if name == "co_argcount":
            a = o.f.node.args
            return len(a.posonlyargs) + len(a.args)
        if name == "co_varnames":
            a = o.f.node.args
            return TupleVal([p.arg for p in a.posonlyargs + a.args])
        return None
    if isinstance(o, (int, Sym)) and not isinstance(o, bool):
        if name == "bit_length":
            return None
        if name in ("real", "numerator"):
            return o
    if isinstance(o, IterVal):
        if name == "__next__":
            return Builtin("next", lambda ctx: I.call(ctx, I.builtins["next"], [o], {}))
    if isinstance(o, Obj) and via_super:
        if name == "__init__":
            return B_(lambda ctx, *a, **k: None)
        if name == "__init_subclass__":
            return B_(lambda ctx, *a, **k: None)
        if name == "__setattr__":
            return B_(lambda ctx, n, v: o.fields.__setitem__(n, v))
        if name in ("__repr__", "__str__"):
            return B_(lambda ctx: FmtStr(["object-repr", o]))
        data = o.fields.get("__data__")
        if data is not None:
            return builtin_method(I, ctx, data, name)
    if isinstance(o, Obj):
        data = o.fields.get("__data__")
        if data is not None:
            return builtin_method(I, ctx, data, name)
    if isinstance(o, ClassVal) and via_super:
        if name == "__new__":
            return B_(lambda ctx, c, *a, **k: builtin_new(I, ctx, c, a, k))
    return None


def list_index(I, ctx, items, x):
    for i, y in enumerate(items):
        f = B.eq_formula(I, ctx, y, x)
        if f is True:
            return i
        if f is False:
            continue
        if ctx.branch(f):
            return i
    raise I.raise_exc("ValueError")


def list_count(I, ctx, items, x):
    """list.count / tuple.count: the number of items equal to x; an item whose equality with x is not decided
    syntactically contributes If(equal, 1, 0)."""
    import z3
    n = 0
    terms = []
    for y in items:
        f = B.eq_formula(I, ctx, y, x)
        if f is True:
            n += 1
        elif f is not False:
            terms.append(z3.If(B._zb(f), z3.IntVal(1), z3.IntVal(0)))
    if not terms:
        return n
    return B.wrap(smt.simp(z3.IntVal(n) + z3.Sum(terms) if len(terms) > 1 else z3.IntVal(n) + terms[0]))


def list_method(I, ctx, o, name):
    def B_(fn):
        return Builtin("list." + name, fn)
    if name == "append":
        return B_(lambda ctx, x: o.items.append(x))
    if name == "extend":
        return B_(lambda ctx, xs: o.items.extend(I.iterate(ctx, xs)))
    if name == "insert":
        def ins(ctx, i, x):
            if not isinstance(i, int):
                raise Unsupported("symbolic list.insert on concrete list")
            o.items.insert(i, x)
        return B_(ins)
    if name == "pop":
        def pop(ctx, i=-1):
            if not o.items:
                raise I.raise_exc("IndexError")
            return o.items.pop(i)
        return B_(pop)
    if name == "index":
        return B_(lambda ctx, x: list_index(I, ctx, o.items, x))
    if name == "copy":
        return B_(lambda ctx: ListVal(o.items))
    if name == "remove":
        def rm(ctx, x):
            i = list_index(I, ctx, o.items, x)
            del o.items[i]
        return B_(rm)
    if name == "count":
        return B_(lambda ctx, x: list_count(I, ctx, o.items, x))
    if name == "reverse":
        return B_(lambda ctx: o.items.reverse())
    if name == "clear":
        return B_(lambda ctx: o.items.clear())
    if name == "sort":
        def sort(ctx, key=None, reverse=False):
            r = I.call(ctx, I.builtins["sorted"], [o], {"key": key, "reverse": reverse})
            o.items[:] = r.items
        return B_(sort)
    if name == "__iter__":
        return B_(lambda ctx: ListVal(o.items))
    if name == "__len__":
        return B_(lambda ctx: len(o.items))
    if name == "__getitem__":
        return B_(lambda ctx, k: B.getitem(I, ctx, o, k))
    return None


def symlist_method(I, ctx, o, name):
    def B_(fn):
        return Builtin("symlist." + name, fn)
    if name == "append":
        def app(ctx, x):
            seq = o.seq
            n = seq.length
            o.seq = SeqVal(smt.simp(B._z(n) + 1),
                           lambda i, seq=seq, n=n, x=x: B.ite_val(B._z(i) == B._z(n), lambda: x, lambda: seq.elem(i)), tag="append")
        return B_(app)
    if name == "insert":
        def ins(ctx, pos, x):
            seq = o.seq
            n = seq.length
            p = B.zint(pos)
            # python clamps the position
            p = smt.simp(z3.If(p < 0, z3.If(B._z(n) + p < 0, z3.IntVal(0), B._z(n) + p), z3.If(p > B._z(n), B._z(n), p)))

            def elem(i, seq=seq, p=p, x=x):
                zi = B._z(i)
                return B.ite_val(zi == p, lambda: x, lambda: B.ite_val(zi < p, lambda: seq.elem(i), lambda: seq.elem(smt.simp(zi - 1))))
            o.seq = SeqVal(smt.simp(B._z(n) + 1), elem, tag="insert")
        return B_(ins)
    if name == "copy":
        return B_(lambda ctx: SymList(o.seq))
    if name == "__len__":
        return B_(lambda ctx: B.wrap(B._z(o.seq.length)))
    if name == "index":
        def index(ctx, x):
            import z3
            seq = o.seq
            n = B._z(seq.length)
            q = z3.Int(ctx.fresh_name("ix_q"))
            present = z3.Exists([q], z3.And(q >= 0, q < n, B._zb(B.eq_formula(I, ctx, seq.elem(q), x))))
            if not ctx.branch(present):
                raise I.raise_exc("ValueError")
            i = ctx.fresh_int("index")
            body = B._zb(B.eq_formula(I, ctx, seq.elem(q), x))
            ctx.assume(z3.And(i >= 0, i < n, B._zb(B.eq_formula(I, ctx, seq.elem(i), x))))
            ctx.assume(z3.ForAll([q], z3.Implies(z3.And(q >= 0, q < i), z3.Not(body))))
            return B.wrap(i)
        return B_(index)
    if name == "count":
        def count(ctx, x):
            # partial specification of list.count on a list of symbolic length: within 0..len, positive exactly when
            # some element equals x, equal to len exactly when every element does
            import z3
            seq = o.seq
            n = B._z(seq.length)
            q = z3.Int(ctx.fresh_name("cnt_q"))
            body = B._zb(B.eq_formula(I, ctx, seq.elem(q), x))
            c = ctx.fresh_int("count")
            ctx.assume(z3.And(c >= 0, c <= n))
            ctx.assume((c > 0) == z3.Exists([q], z3.And(q >= 0, q < n, body)))
            ctx.assume((c == n) == z3.ForAll([q], z3.Implies(z3.And(q >= 0, q < n), body)))
            return B.wrap(c)
        return B_(count)
    return None


def dict_method(I, ctx, o, name):
    def B_(fn):
        return Builtin("dict." + name, fn)
    if name == "get":
        def dget(ctx, k, d=None):
            try:
                if not o.sym:
                    return o.items.get(I_hkey(k), d)
            except Unsupported:
                pass
            return B.map_get(I, ctx, B.map_from_dict(I, ctx, o), k, d)
        return B_(dget)
    if name == "items":
        return B_(lambda ctx: ListVal([TupleVal([o.keyvals[k], v]) for k, v in o.items.items()] + [TupleVal([k, v]) for k, v in reversed(o.sym)]))
    if name == "keys":
        return B_(lambda ctx: ListVal(list(o.keyvals.values()) + [k for k, v in reversed(o.sym)]))
    if name == "values":
        return B_(lambda ctx: ListVal(list(o.items.values()) + [v for k, v in reversed(o.sym)]))
    if name == "copy":
        def cp(ctx):
            d = DictVal()
            d.items.update(o.items)
            d.keyvals.update(o.keyvals)
            return d
        return B_(cp)
    if name == "update":
        def upd(ctx, *a, **kw):
            if a:
                src = a[0]
                if isinstance(src, DictVal):
                    for k, v in src.items.items():
                        o.items[k] = v
                        o.keyvals.setdefault(k, src.keyvals[k])
                elif isinstance(src, ObjDictView):
                    for k, v in src.obj.fields.items():
                        o.items[I_hkey(k)] = v
                        o.keyvals.setdefault(I_hkey(k), k)
                else:
                    for p in I.iterate(ctx, src):
                        k, v = I.iterate(ctx, p)
                        o.items[I_hkey(k)] = v
                        o.keyvals.setdefault(I_hkey(k), k)
            for k, v in kw.items():
                o.items[I_hkey(k)] = v
                o.keyvals.setdefault(I_hkey(k), k)
        return B_(upd)
    if name == "setdefault":
        def sd(ctx, k, d=None):
            hk = I_hkey(k)
            if hk not in o.items:
                o.items[hk] = d
                o.keyvals[hk] = k
            return o.items[hk]
        return B_(sd)
    if name == "pop":
        def pop(ctx, k, *d):
            hk = I_hkey(k)
            if hk in o.items:
                o.keyvals.pop(hk)
                return o.items.pop(hk)
            if d:
                return d[0]
            raise ExcVal(I.exc_classes["KeyError"], (k,))
        return B_(pop)
    if name == "clear":
        def clr(ctx):
            o.items.clear()
            o.keyvals.clear()
        return B_(clr)
    if name == "__contains__":
        return B_(lambda ctx, k: I_hkey(k) in o.items)
    if name == "__getitem__":
        return B_(lambda ctx, k: B.getitem(I, ctx, o, k))
    if name == "__setitem__":
        return B_(lambda ctx, k, v: B.setitem(I, ctx, o, k, v))
    if name == "__iter__":
        return B_(lambda ctx: ListVal(list(o.keyvals.values())))
    if name == "__len__":
        return B_(lambda ctx: len(o.items))
    return None


def objdict_method(I, ctx, view, name):
    o = view.obj

    def B_(fn):
        return Builtin("__dict__." + name, fn)
    if name == "items":
        return B_(lambda ctx: ListVal([TupleVal([k, v]) for k, v in o.fields.items() if not k.startswith("__excval")]))
    if name == "copy":
        def cp(ctx):
            d = DictVal()
            for k, v in o.fields.items():
                d.items[I_hkey(k)] = v
                d.keyvals[I_hkey(k)] = k
            return d
        return B_(cp)
    if name == "get":
        return B_(lambda ctx, k, d=None: o.fields.get(k, d))
    if name == "update":
        def upd(ctx, src):
            if isinstance(src, ObjDictView):
                o.fields.update(src.obj.fields)
            else:
                for k, v in src.items.items():
                    o.fields[src.keyvals[k]] = v
        return B_(upd)
    if name == "__setitem__":
        return B_(lambda ctx, k, v: o.fields.__setitem__(k, v))
    if name == "__getitem__":
        def gi(ctx, k):
            if k not in o.fields:
                raise ExcVal(I.exc_classes["KeyError"], (k,))
            return o.fields[k]
        return B_(gi)
    if name == "keys":
        return B_(lambda ctx: ListVal(list(o.fields.keys())))
    if name == "__contains__":
        return B_(lambda ctx, k: k in o.fields)
    if name == "setdefault":
        def sd(ctx, k, d=None):
            if k not in o.fields:
                o.fields[k] = d
            return o.fields[k]
        return B_(sd)
    if name == "pop":
        def pop(ctx, k, *d):
            if k in o.fields:
                return o.fields.pop(k)
            if d:
                return d[0]
            raise ExcVal(I.exc_classes["KeyError"], (k,))
        return B_(pop)
    if name == "values":
        return B_(lambda ctx: ListVal([v for k, v in o.fields.items() if not k.startswith("__excval")]))
    if name == "clear":
        return B_(lambda ctx: o.fields.clear())
    return None


def set_method(I, ctx, o, name):
    def B_(fn):
        return Builtin("set." + name, fn)
    if name == "add":
        def add(ctx, x):
            try:
                k = I_hkey(x)
            except Unsupported:
                k = ("symbolic-element", id(x))      # symbolic elements are kept apart (never merged)
            o.items[k] = x
        return B_(add)
    if name == "union":
        def union(ctx, *others):
            s = SetVal()
            s.items.update(o.items)
            for x in others:
                for v in I.iterate(ctx, x):
                    s.items[I_hkey(v)] = v
            return s
        return B_(union)
    if name == "update":
        def upd(ctx, *others):
            for x in others:
                for v in I.iterate(ctx, x):
                    o.items[I_hkey(v)] = v
        return B_(upd)
    if name == "discard":
        return B_(lambda ctx, x: o.items.pop(I_hkey(x), None))
    if name == "remove":
        def rm(ctx, x):
            if I_hkey(x) not in o.items:
                raise ExcVal(I.exc_classes["KeyError"], (x,))
            del o.items[I_hkey(x)]
        return B_(rm)
    if name == "copy":
        def cp(ctx):
            s = SetVal()
            s.items.update(o.items)
            return s
        return B_(cp)
    if name == "issubset":
        return B_(lambda ctx, other: all(I_hkey(v) in {I_hkey(x) for x in I.iterate(ctx, other)} for v in o.items.values()))
    if name == "difference":
        def diff(ctx, other):
            ks = {I_hkey(x) for x in I.iterate(ctx, other)}
            s = SetVal()
            for k, v in o.items.items():
                if k not in ks:
                    s.items[k] = v
            return s
        return B_(diff)
    if name == "intersection":
        def inter(ctx, other):
            ks = {I_hkey(x) for x in I.iterate(ctx, other)}
            s = SetVal()
            for k, v in o.items.items():
                if k in ks:
                    s.items[k] = v
            return s
        return B_(inter)
    if name == "__contains__":
        return B_(lambda ctx, x: I_hkey(x) in o.items)
    return None
